From Coq Require Import QArith Qminmax ZArith List Bool Lia Lqa.
Require Import Mici.C01.Lib Mici.C01.Model Mici.C01.Build Mici.C01.Sym Mici.C01.Loop Mici.C01.Path Mici.C01.Bal Mici.C01.Fin Mici.C01.Tree Mici.C01.Tree2 Mici.C01.Total Mici.C01.Final Mici.C01.Reindex Mici.C01.Main.
Import ListNotations.
Open Scope Q_scope.

(* The slice variant: at slice level u the selection weights are indicators [u <= exp(-h_k)] and a state is
   divergent when  exp(max_delta_h) * exp(-h_k) < u  (i.e. h_k + log u > max_delta_h).                      *)
Section Sl.
Variable wt : Z -> Q. Variable okE : Z -> bool. Variable crit : Z -> Z -> bool.
Variable cdiv : Q.                       (* exp(max_delta_h) *)
Hypothesis cdiv_ge1 : 1 <= cdiv.
Hypothesis wt_pos : forall i, 0 <= wt i.
Variable extra : bool. Variable w0 : Q.

Definition ind_le (u x : Q) : Q := if Qle_bool u x then 1 else 0.
Definition orbit_at (u : Q) : orbit :=
  {| Model.wt := wt; Model.okE := okE; dvg := fun k => negb (Qle_bool u (cdiv * wt k)); Model.crit := crit; wfun := fun k => ind_le u (wt k) |}.

Lemma orbit_at_wpos u i : 0 <= wfun (orbit_at u) i.
Proof. cbn. unfold ind_le. destruct (Qle_bool u (wt i)); lra. Qed.
Lemma orbit_at_div u i : 0 < u -> ~ wfun (orbit_at u) i == 0 -> dvg (orbit_at u) i = false.
Proof.
  intros Hu H. cbn in *. unfold ind_le in H. destruct (Qle_bool u (wt i)) eqn:E; [|exfalso; apply H; reflexivity].
  apply Qle_bool_iff in E. apply negb_false_iff. apply Qle_bool_iff.
  pose proof (wt_pos i). nra.
Qed.

(* conditional on the slice level, the transition leaves the uniform distribution on the slice invariant *)
Theorem slice_level_invariant u maxd j : 0 < u ->
  wsum (j - pw maxd + 1)%Z (Z.to_nat (2 * pw maxd - 1))
       (fun i => ind_le u (wt i) * ex (sample (orbit_at u) true extra w0 maxd i) (fun o => dlt j (next o))) == ind_le u (wt j).
Proof.
  intros Hu. apply (dynamic_invariant (orbit_at u) true extra w0 (orbit_at_wpos u) (fun i => orbit_at_div u i Hu) maxd j).
Qed.

(* integrating over the slice level: u | start i is uniform on (0, wt i]; the kernel is piecewise constant in u,
   so the integral is a finite sum over breakpoints b_1 < ... < b_m (left end b_0 = 0), evaluated at right endpoints *)
Fixpoint integral (prev : Q) (bps : list Q) (f : Q -> Q) : Q :=
  match bps with [] => 0 | b :: r => (b - prev) * f b + integral b r f end.
Fixpoint increasing (prev : Q) (bps : list Q) : Prop := match bps with [] => True | b :: r => prev < b /\ increasing b r end.

Lemma ind_le_true u x : u <= x -> ind_le u x = 1.
Proof. intros H. unfold ind_le. apply Qle_bool_iff in H. rewrite H. reflexivity. Qed.
Lemma ind_le_false u x : x < u -> ind_le u x = 0.
Proof. intros H. unfold ind_le. destruct (Qle_bool u x) eqn:E; [apply Qle_bool_iff in E; lra| reflexivity]. Qed.
Lemma increasing_gt prev bps : increasing prev bps -> forall y, In y bps -> prev < y.
Proof. revert prev; induction bps as [|b r IH]; intros prev H y Hy; [destruct Hy|]. destruct H as [H1 H2]. destruct Hy as [<-|Hy]; auto. specialize (IH b H2 y Hy). lra. Qed.
Lemma integral_zero prev bps x : increasing prev bps -> x <= prev -> integral prev bps (fun u => ind_le u x) == 0.
Proof.
  revert prev; induction bps as [|b r IH]; intros prev H Hx; cbn [integral]. reflexivity.
  destruct H as [H1 H2]. rewrite ind_le_false by lra. rewrite IH by (auto; lra). lra.
Qed.
(* x is one of the breakpoints (up to ==) or the left end *)
Definition among (x prev : Q) (bps : list Q) := x == prev \/ exists y, In y bps /\ x == y.
Lemma integral_indicator prev bps x : increasing prev bps -> among x prev bps ->
  integral prev bps (fun u => ind_le u x) == x - prev.
Proof.
  revert prev; induction bps as [|b r IH]; intros prev H Hx; cbn [integral].
  - destruct Hx as [E|(y & [] & _)]. lra.
  - destruct H as [H1 H2]. destruct Hx as [E|(y & [<-|Hy] & E)].
    + rewrite ind_le_false by lra. rewrite integral_zero by (auto; lra). lra.
    + rewrite ind_le_true by lra. rewrite IH; auto. lra. left; auto.
    + pose proof (increasing_gt b r H2 y Hy). rewrite ind_le_true by lra. rewrite IH; auto. lra. right. exists y; auto.
Qed.

(* the integrated statement:  sum_i  integral_0^{wt i} K_u(i,j) du  =  wt j , written with the finite integral *)
Theorem slice_integrated maxd j bps : increasing 0 bps -> among (wt j) 0 bps ->
  integral 0 bps (fun u =>
     wsum (j - pw maxd + 1)%Z (Z.to_nat (2 * pw maxd - 1))
          (fun i => ind_le u (wt i) * ex (sample (orbit_at u) true extra w0 maxd i) (fun o => dlt j (next o)))) == wt j.
Proof.
  intros Hinc Ham.
  assert (G : forall prev l, increasing prev l -> 0 <= prev ->
     integral prev l (fun u => wsum (j - pw maxd + 1)%Z (Z.to_nat (2 * pw maxd - 1))
          (fun i => ind_le u (wt i) * ex (sample (orbit_at u) true extra w0 maxd i) (fun o => dlt j (next o))))
     == integral prev l (fun u => ind_le u (wt j))).
  { intros prev l; revert prev; induction l as [|b r IH]; intros prev H Hp; cbn [integral]. reflexivity.
    destruct H as [H1 H2]. rewrite slice_level_invariant by lra. rewrite IH by (auto; lra). reflexivity. }
  rewrite G by (auto; lra). rewrite integral_indicator; auto. lra.
Qed.
End Sl.
Print Assumptions slice_integrated.
