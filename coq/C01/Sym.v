From Coq Require Import QArith Qminmax ZArith List Bool Lia Lqa.
Require Import Mici.C01.Lib Mici.C01.Model Mici.C01.Build.
Open Scope Q_scope.

Section S.
Variable Ob : orbit. Variable slice extra : bool. Variable w0 : Q.
Hypothesis wpos : forall i, 0 <= wfun Ob i.
Notation Wb := (Wb Ob).
Notation pi := (pi Ob slice).
Notation valid := (valid Ob extra).
Notation term := (term Ob extra).

Lemma Wb_nonneg l d : 0 <= Wb l d.
Proof. apply bsum_nonneg; intros; apply wpos. Qed.
Lemma Wb_zero_elem l d j : Wb l d == 0 -> (l <= j < l + pw d)%Z -> wfun Ob j == 0.
Proof.
  revert l; induction d; intros l H Hj; unfold Build.Wb in *; cbn [bsum pw] in *.
  - assert (l = j) by lia; subst; auto.
  - pose proof (pw_pos d). pose proof (Wb_nonneg l d). pose proof (Wb_nonneg (l + pw d) d). unfold Build.Wb in *.
    destruct (Z_lt_dec j (l + pw d)); [apply (IHd l)| apply (IHd (l + pw d)%Z)]; try lia; lra.
Qed.

(* clip (ratio a (b)) when 0<=a<=b, b>0 is a/b ; when b = 0 it is 0 or clip(min a 1) with a = 0 *)
Lemma clip_ratio a b : 0 <= a -> a <= b -> b * clip (ratio slice a b) == a.
Proof.
  intros Ha Hab. unfold ratio. destruct (Qeq_bool b 0) eqn:E.
  - apply Qeq_bool_iff in E. rewrite E. assert (a == 0) by lra. lra.
  - apply Qeq_bool_neq in E. assert (0 < b) by lra.
    assert (0 <= a / b <= 1).
    { split. apply Qle_shift_div_l; lra. apply Qle_shift_div_r; lra. }
    rewrite Q.min_l by lra. rewrite clip_id by lra. field; auto.
Qed.

Lemma pi_mult d : forall fwd e j, (blo fwd e d <= j < blo fwd e d + pw d)%Z ->
  Wb (blo fwd e d) d * pi fwd e d j == wfun Ob j.
Proof.
  induction d as [|d IH]; intros fwd e j Hj.
  - cbn [Build.pi]. unfold Build.Wb. unfold blo in *. cbn [bsum pw] in *.
    destruct fwd.
    + assert (j = (e + 1)%Z) by lia. subst. rewrite Z.eqb_refl. lra.
    + assert (j = (e - 1)%Z) by lia. subst. rewrite Z.eqb_refl. lra.
  - pose proof (pw_pos d) as Hp. cbn [Build.pi].
    set (e2 := if fwd then (e + pw d)%Z else (e - pw d)%Z).
    set (l := blo fwd e (S d)).
    set (rho := clip _).
    assert (EW : Wb l (S d) == Wb l d + Wb (l + pw d)%Z d) by (unfold Build.Wb; cbn [bsum]; reflexivity).
    pose proof (Wb_nonneg l d) as P1. pose proof (Wb_nonneg (l + pw d) d) as P2.
    (* which half is outer *)
    destruct fwd.
    + (* inner = l (first half), outer = l + pw d *)
      assert (Eo : blo true e2 d = (l + pw d)%Z) by (unfold e2, l, blo; lia).
      assert (Ei : blo true e d = l) by (unfold l, blo; lia).
      assert (R : (Wb l d + Wb (l + pw d) d) * rho == Wb (l + pw d) d).
      { unfold rho. rewrite Eo. apply clip_ratio; lra. }
      destruct (Z_lt_dec j (l + pw d)).
      * rewrite (pi_support Ob slice d true e2 j) by (rewrite Eo; lia).
        specialize (IH true e j). rewrite Ei in IH. specialize (IH ltac:(lia)).
        rewrite EW. transitivity ((Wb l d + Wb (l + pw d) d - (Wb l d + Wb (l + pw d) d) * rho) * pi true e d j); [lra|].
        rewrite R. rewrite <- IH. lra.
      * rewrite (pi_support Ob slice d true e j) by (rewrite Ei; unfold l, blo in *; cbn [pw] in *; lia).
        specialize (IH true e2 j). rewrite Eo in IH. specialize (IH ltac:(unfold l, blo in *; cbn [pw] in *; lia)).
        rewrite EW. transitivity (((Wb l d + Wb (l + pw d) d) * rho) * pi true e2 d j); [lra|].
        rewrite R. exact IH.
    + (* inner = l + pw d (second half), outer = l *)
      assert (Eo : blo false e2 d = l) by (unfold e2, l, blo; cbn [pw]; lia).
      assert (Ei : blo false e d = (l + pw d)%Z) by (unfold l, blo; cbn [pw]; lia).
      assert (R : (Wb l d + Wb (l + pw d) d) * rho == Wb l d).
      { unfold rho. rewrite Eo. apply clip_ratio; lra. }
      destruct (Z_lt_dec j (l + pw d)).
      * rewrite (pi_support Ob slice d false e j) by (rewrite Ei; lia).
        specialize (IH false e2 j). rewrite Eo in IH. specialize (IH ltac:(unfold l, blo in *; cbn [pw] in *; lia)).
        rewrite EW. transitivity (((Wb l d + Wb (l + pw d) d) * rho) * pi false e2 d j); [lra|].
        rewrite R. exact IH.
      * rewrite (pi_support Ob slice d false e2 j) by (rewrite Eo; lia).
        specialize (IH false e j). rewrite Ei in IH. specialize (IH ltac:(unfold l, blo in *; cbn [pw] in *; lia)).
        rewrite EW. transitivity ((Wb l d + Wb (l + pw d) d - (Wb l d + Wb (l + pw d) d) * rho) * pi false e d j); [lra|].
        rewrite R. rewrite <- IH. lra.
Qed.

(* direction-independent validity *)
Fixpoint inok (l : Z) (d : nat) : bool :=
  match d with
  | O => negb (dvg Ob l)
  | S d' => inok l d' && okE Ob (l + pw d' - 1)%Z && inok (l + pw d')%Z d' && negb (term l (l + pw (S d') - 1)%Z (l + pw d' - 1)%Z (S d'))
  end.
Lemma valid_fwd d : forall e, valid true e d = okE Ob e && inok (e + 1)%Z d.
Proof.
  induction d as [|d IH]; intros e; cbn [Build.valid inok]. reflexivity.
  rewrite IH, IH. unfold blo.
  replace (e + pw d + 1)%Z with (e + 1 + pw d)%Z by lia.
  replace (e + 1 + pw d - 1)%Z with (e + pw d)%Z by lia.
  destruct (okE Ob e), (inok (e + 1) d), (okE Ob (e + pw d)), (inok (e + 1 + pw d) d); reflexivity.
Qed.
Lemma valid_bwd d : forall e, valid false e d = okE Ob (e - 1)%Z && inok (e - pw d)%Z d.
Proof.
  induction d as [|d IH]; intros e; cbn [Build.valid inok].
  - cbn [pw]. reflexivity.
  - rewrite IH, IH. unfold blo. pose proof (pw_pos d).
    replace (e - pw d - pw d)%Z with (e - pw (S d))%Z by (cbn [pw]; lia).
    replace (e - pw (S d) + pw d)%Z with (e - pw d)%Z by (cbn [pw]; lia).
    replace (e - pw d - 1)%Z with (e - pw d - 1)%Z by lia.
    destruct (okE Ob (e - 1)), (inok (e - pw d) d), (okE Ob (e - pw d - 1)), (inok (e - pw (S d)) d); reflexivity.
Qed.
End S.
