From Coq Require Import QArith Qminmax ZArith List Bool Lia Lqa.
Require Import Mici.C01.Lib Mici.C01.Model Mici.C01.Build Mici.C01.Sym Mici.C01.Loop Mici.C01.Path Mici.C01.Bal Mici.C01.Fin Mici.C01.Tree.
Import ListNotations.
Open Scope Q_scope.

Lemma sumn_shift n g : sumn (S n) g == g O + sumn n (fun m => g (S m)).
Proof. induction n; cbn [sumn] in *; [lra| rewrite IHn; lra]. Qed.
Lemma dsum_zero m : forall h, (forall ds, h ds == 0) -> dsum m h == 0.
Proof. induction m; intros h H; cbn [dsum]; [apply H| rewrite !IHm by (intros; apply H); lra]. Qed.
Lemma dsum_bsum m : forall l d (g : Z -> list bool -> Q),
  dsum m (fun ds => bsum l d (fun z => g z ds)) == bsum l d (fun z => dsum m (fun ds => g z ds)).
Proof.
  induction m; intros l d g; cbn [dsum]. reflexivity.
  rewrite !IHm. rewrite <- bsum_plus. reflexivity.
Qed.

Definition allsum (f : nat) (h : list bool -> Q) : Q := sumn (S f) (fun m => dsum m h).
Lemma allsum_S f h : allsum (S f) h == h [] + allsum f (fun ds => h (true :: ds)) + allsum f (fun ds => h (false :: ds)).
Proof.
  unfold allsum. rewrite sumn_shift. cbn [dsum]. rewrite sumn_plus. lra.
Qed.
Lemma allsum_0 h : allsum 0 h == h [].
Proof. unfold allsum. cbn [sumn dsum]. lra. Qed.
Lemma allsum_ext f h g : (forall ds, h ds == g ds) -> allsum f h == allsum f g.
Proof. intros H. unfold allsum. apply sumn_ext; intros. apply dsum_ext; intros; apply H. Qed.
Lemma allsum_plus f h g : allsum f (fun ds => h ds + g ds) == allsum f h + allsum f g.
Proof. unfold allsum. rewrite <- sumn_plus. apply sumn_ext; intros. apply dsum_plus. Qed.
Lemma allsum_scal f c h : allsum f (fun ds => c * h ds) == c * allsum f h.
Proof. unfold allsum. rewrite <- sumn_scal. apply sumn_ext; intros. apply dsum_scal. Qed.
Lemma sumn_bsum n l d (g : nat -> Z -> Q) : sumn n (fun m => bsum l d (fun z => g m z)) == bsum l d (fun z => sumn n (fun m => g m z)).
Proof. induction n; cbn [sumn]. - symmetry. apply bsum_zero; intros; reflexivity. - rewrite IHn, <- bsum_plus. reflexivity. Qed.
Lemma allsum_bsum f l d (g : Z -> list bool -> Q) :
  allsum f (fun ds => bsum l d (fun z => g z ds)) == bsum l d (fun z => allsum f (fun ds => g z ds)).
Proof.
  unfold allsum. rewrite (sumn_ext _ _ (fun m => bsum l d (fun z => dsum m (fun ds => g z ds)))) by (intros; apply dsum_bsum).
  apply sumn_bsum.
Qed.
Lemma allsum_nil f g : allsum f (fun ds => b2q (match ds with [] => true | _ => false end) * g ds) == g [].
Proof.
  induction f.
  - rewrite allsum_0. cbn [b2q]. lra.
  - rewrite allsum_S. cbn [b2q].
    assert (Z0 : forall b, allsum f (fun ds => 0 * g (b :: ds)) == 0).
    { intros b. rewrite allsum_scal. lra. }
    rewrite (Z0 true), (Z0 false). lra.
Qed.

Section Tt.
Variable Ob : orbit. Variable slice extra : bool.
Notation pi := (pi Ob slice).
Notation valid := (valid Ob extra).
Notation tm := (tm Ob extra).
Notation rtop := (rtop Ob slice).
Notation pathC := (pathC Ob extra).
Variable gam : Z -> Q.
Notation pathE := (pathE Ob slice gam).
Notation LEg := (LE Ob slice extra (fun nx _ => gam nx)).

Lemma LE_total f : forall k lo nx acc,
  LEg f k lo nx acc == allsum f (fun ds => pathC f k lo ds * pathE k lo ds nx).
Proof.
  induction f as [|f IH]; intros k lo nx acc.
  - cbn [LE]. rewrite allsum_0. cbn [Path.pathC Path.pathE]. lra.
  - cbn [LE]. rewrite allsum_S. cbn [Path.pathC Path.pathE].
    assert (R : forall d, (if valid d (edge_of d lo k) k then
          bsum (newlo d lo k) k (fun z' => pi d (edge_of d lo k) k z' * (rtop d lo k * (if tm (mlo d lo k) k then gam z' else LEg f (S k) (mlo d lo k) z' (d :: acc)) + (1 - rtop d lo k) * (if tm (mlo d lo k) k then gam nx else LEg f (S k) (mlo d lo k) nx (d :: acc))))
        else gam nx) ==
        b2q (negb (valid d (edge_of d lo k) k)) * gam nx +
        (1 + 1) * allsum f (fun ds => (1#2) * b2q (valid d (edge_of d lo k) k) *
             (if tm (mlo d lo k) k then b2q (match ds with [] => true | _ => false end) else pathC f (S k) (mlo d lo k) ds) *
             bsum (newlo d lo k) k (fun z' => pi d (edge_of d lo k) k z' * (rtop d lo k * pathE (S k) (mlo d lo k) ds z' + (1 - rtop d lo k) * pathE (S k) (mlo d lo k) ds nx)))).
    { intros d. destruct (valid d (edge_of d lo k) k); cbn [negb b2q].
      2:{ rewrite (allsum_ext f _ (fun ds => 0 * 0)) by (intros; ring). rewrite allsum_scal. lra. }
      set (M := mlo d lo k). set (X := fun ds => if tm M k then b2q (match ds with [] => true | _ => false end) else pathC f (S k) M ds).
      assert (CX : forall x, (if tm M k then gam x else LEg f (S k) M x (d :: acc)) == allsum f (fun ds => X ds * pathE (S k) M ds x)).
      { intros x. unfold X. destruct (tm M k).
        - rewrite (allsum_nil f (fun ds => pathE (S k) M ds x)). cbn [Path.pathE]. reflexivity.
        - apply IH. }
      set (B := bsum (newlo d lo k) k (fun z' => pi d (edge_of d lo k) k z' * (rtop d lo k * allsum f (fun ds => X ds * pathE (S k) M ds z') + (1 - rtop d lo k) * allsum f (fun ds => X ds * pathE (S k) M ds nx)))).
      assert (EL : bsum (newlo d lo k) k (fun z' => pi d (edge_of d lo k) k z' * (rtop d lo k * (if tm M k then gam z' else LEg f (S k) M z' (d :: acc)) + (1 - rtop d lo k) * (if tm M k then gam nx else LEg f (S k) M nx (d :: acc)))) == B).
      { unfold B. apply bsum_ext; intros z' _. rewrite !CX. reflexivity. }
      assert (ER : allsum f (fun ds => (1#2) * 1 * X ds * bsum (newlo d lo k) k (fun z' => pi d (edge_of d lo k) k z' * (rtop d lo k * pathE (S k) M ds z' + (1 - rtop d lo k) * pathE (S k) M ds nx))) == (1#2) * B).
      { rewrite (allsum_ext f _ (fun ds => (1#2) * bsum (newlo d lo k) k (fun z' => pi d (edge_of d lo k) k z' * (rtop d lo k * (X ds * pathE (S k) M ds z') + (1 - rtop d lo k) * (X ds * pathE (S k) M ds nx))))).
        2:{ intros ds. rewrite <- !bsum_scal. apply bsum_ext; intros; lra. }
        rewrite allsum_scal, allsum_bsum. apply Qmult_comp; [reflexivity|]. unfold B.
        apply bsum_ext; intros z' _.
        rewrite <- !allsum_scal, <- allsum_plus, <- allsum_scal. apply allsum_ext; intros; lra. }
      rewrite EL. unfold X in ER. fold M. rewrite ER. lra. }
    rewrite (R true), (R false). lra.
Qed.
End Tt.
