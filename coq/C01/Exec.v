(* Executable views of the transition models used by the correspondence check: all leaves of a decision tree with the
   thresholds and branch decisions leading to them. *)
From Coq Require Import QArith Qminmax ZArith List Bool.
Require Import Mici.C01.Lib Mici.C01.Model.
Require Mici.C01M.Lib Mici.C01M.Metro.
Import ListNotations.
Open Scope Q_scope.

Fixpoint leaves {A} (m : ptree A) : list (list (Q * bool) * A) :=
  match m with
  | Ret a => [([], a)]
  | Flip p t f => map (fun x => ((p, true) :: fst x, snd x)) (leaves t) ++ map (fun x => ((p, false) :: fst x, snd x)) (leaves f)
  end.
Fixpoint leavesM {A} (m : Mici.C01M.Lib.ptree A) : list (list (Q * bool) * A) :=
  match m with
  | Mici.C01M.Lib.Ret a => [([], a)]
  | Mici.C01M.Lib.Flip p t f => map (fun x => ((p, true) :: fst x, snd x)) (leavesM t) ++ map (fun x => ((p, false) :: fst x, snd x)) (leavesM f)
  end.
Definition qz (q : Q) : Z * Z := let r := Qred q in (Qnum r, Zpos (Qden r)).
Definition bz (b : bool) : Z := if b then 1%Z else 0%Z.
Definition enc_path (l : list (Q * bool)) : list (Z * Z * Z) := map (fun x => (fst (qz (fst x)), snd (qz (fst x)), bz (snd x))) l.
Definition enc_out (o : out) : list Z :=
  [next o; Z.of_nat (o_nstep o); fst (qz (o_acc o)); snd (qz (o_acc o)); Z.of_nat (o_depth o); bz (o_div o); bz (o_err o)].
(* dynamic transition on an orbit given by finite tables *)
Definition tab {A} (d : A) (l : list (Z * A)) (z : Z) : A :=
  match find (fun p => Z.eqb (fst p) z) l with Some p => snd p | None => d end.
Definition mem2 (l : list (Z * Z)) (a b : Z) : bool := existsb (fun p => Z.eqb (fst p) a && Z.eqb (snd p) b) l.
Definition dyn_leaves (ws : list (Z * Q)) (bad : list Z) (cr : list (Z * Z)) (slice extra : bool) (u cdiv : Q) (maxd : nat) (i : Z)
  : list (list (Z * Z * Z) * list Z) :=
  let w := tab 0 ws in
  let ob := if slice
            then {| wt := w; okE := fun e => negb (existsb (Z.eqb e) bad); dvg := fun k => negb (Qle_bool u (cdiv * w k)); crit := mem2 cr;
                    wfun := fun k => if Qle_bool u (w k) then 1 else 0 |}
            else {| wt := w; okE := fun e => negb (existsb (Z.eqb e) bad); dvg := fun k => negb (Qle_bool (w i) (cdiv * w k)); crit := mem2 cr; wfun := w |} in
  map (fun x => (enc_path (fst x), enc_out (snd x))) (leaves (sample ob slice extra (w i) maxd i)).
Definition metro_leaves (ws : list (Z * Q)) (bad : list Z) (n : nat) (i : Z) (d : bool) : list (list (Z * Z * Z) * list Z) :=
  map (fun x => (enc_path (fst x), [Mici.C01M.Metro.idx (snd x); bz (Mici.C01M.Metro.fwd (snd x))]))
      (leavesM (Mici.C01M.Metro.sample_n (tab 0 ws) (fun e => negb (existsb (Z.eqb e) bad)) n {| Mici.C01M.Metro.idx := i; Mici.C01M.Metro.fwd := d |})).
