From Coq Require Import QArith Qminmax ZArith List Bool Lia Lqa.
Require Import Mici.C01.Lib Mici.C01.Model Mici.C01.Build Mici.C01.Sym Mici.C01.Loop Mici.C01.Path.
Import ListNotations.
Open Scope Q_scope.

Section Bl.
Variable Ob : orbit. Variable slice extra : bool.
Hypothesis wpos : forall i, 0 <= wfun Ob i.
Notation Wb := (Wb Ob).
Notation pi := (pi Ob slice).
Notation rtop := (rtop Ob slice).
Notation w := (wfun Ob).

Lemma top_ratio_min A B : 0 <= A -> 0 <= B -> A * clip (ratio slice B A) == Qmin A B.
Proof.
  intros HA HB. unfold ratio. destruct (Qeq_bool A 0) eqn:E.
  - apply Qeq_bool_iff in E. assert (Qmin A B == A) as -> by (apply Q.min_l; lra). set (c := clip _). rewrite E. lra.
  - apply Qeq_bool_neq in E. assert (0 < A) by lra.
    assert (0 <= B / A) by (apply Qle_shift_div_l; lra).
    destruct (Qlt_le_dec A B).
    + assert (1 <= B / A) by (apply Qle_shift_div_l; lra).
      rewrite (Q.min_r (B / A) 1) by lra. rewrite clip_id by lra. rewrite Q.min_l by lra. lra.
    + assert (B / A <= 1) by (apply Qle_shift_div_r; lra).
      rewrite (Q.min_l (B / A) 1) by lra. rewrite clip_id by lra. rewrite Q.min_r by lra. field; auto.
Qed.

(* geometry facts *)
Lemma blo_fwd_new lo k : blo true (edge_of true lo k) k = newlo true lo k.
Proof. unfold blo, edge_of, newlo. lia. Qed.
Lemma blo_bwd_new lo k : blo false (edge_of false lo k) k = newlo false lo k.
Proof. unfold blo, edge_of, newlo. lia. Qed.

Section OneStep.
Variable phi : Z -> Q.
Variables (M : Z) (k : nat).
Let A := Wb M k.
Let B := Wb (M + pw k)%Z k.
Let SL := bsum M k (fun x => w x * phi x).
Let SR := bsum (M + pw k)%Z k (fun x => w x * phi x).

Lemma Epi_fwd : (* sum over new right block of pi * phi, scaled by its weight *)
  B * bsum (M + pw k)%Z k (fun z' => pi true (edge_of true M k) k z' * phi z') == SR.
Proof.
  unfold SR, B. rewrite <- bsum_scal. apply bsum_ext; intros z Hz.
  pose proof (pi_mult Ob slice wpos k true (edge_of true M k) z) as P.
  rewrite blo_fwd_new in P. unfold newlo in P. specialize (P Hz). rewrite <- P. lra.
Qed.
Lemma Epi_bwd : (* from the right child (lo = M + pw k) going backward, new block is (M,k) *)
  A * bsum M k (fun z' => pi false (edge_of false (M + pw k)%Z k) k z' * phi z') == SL.
Proof.
  unfold SL, A. rewrite <- bsum_scal. apply bsum_ext; intros z Hz.
  pose proof (pi_mult Ob slice wpos k false (edge_of false (M + pw k)%Z k) z) as P.
  rewrite blo_bwd_new in P. unfold newlo in P. replace (M + pw k - pw k)%Z with M in P by lia.
  specialize (P Hz). rewrite <- P. lra.
Qed.

Lemma one_step :
  bsum M k (fun nx => w nx *
     bsum (newlo true M k) k (fun z' => pi true (edge_of true M k) k z' * (rtop true M k * phi z' + (1 - rtop true M k) * phi nx)))
  + bsum (M + pw k)%Z k (fun nx => w nx *
     bsum (newlo false (M + pw k)%Z k) k (fun z' => pi false (edge_of false (M + pw k)%Z k) k z' * (rtop false (M + pw k)%Z k * phi z' + (1 - rtop false (M + pw k)%Z k) * phi nx)))
  == bsum M (S k) (fun x => w x * phi x).
Proof.
  cbn [bsum]. fold SL SR.
  unfold newlo. replace (M + pw k - pw k)%Z with M by lia.
  set (rt := rtop true M k). set (rf := rtop false (M + pw k)%Z k).
  set (ER := bsum (M + pw k)%Z k (fun z' => pi true (edge_of true M k) k z' * phi z')).
  set (EL := bsum M k (fun z' => pi false (edge_of false (M + pw k)%Z k) k z' * phi z')).
  assert (T1 : forall nx, bsum (M + pw k)%Z k (fun z' => pi true (edge_of true M k) k z' * (rt * phi z' + (1 - rt) * phi nx)) == rt * ER + (1 - rt) * phi nx).
  { intros nx. rewrite (bsum_ext _ _ _ (fun z' => rt * (pi true (edge_of true M k) k z' * phi z') + ((1 - rt) * phi nx) * pi true (edge_of true M k) k z')) by (intros; lra).
    rewrite bsum_plus, !bsum_scal. fold ER.
    pose proof (pi_total Ob slice k true (edge_of true M k)) as PT. rewrite blo_fwd_new in PT. unfold newlo in PT. rewrite PT. lra. }
  assert (T2 : forall nx, bsum M k (fun z' => pi false (edge_of false (M + pw k)%Z k) k z' * (rf * phi z' + (1 - rf) * phi nx)) == rf * EL + (1 - rf) * phi nx).
  { intros nx. rewrite (bsum_ext _ _ _ (fun z' => rf * (pi false (edge_of false (M + pw k)%Z k) k z' * phi z') + ((1 - rf) * phi nx) * pi false (edge_of false (M + pw k)%Z k) k z')) by (intros; lra).
    rewrite bsum_plus, !bsum_scal. fold EL.
    pose proof (pi_total Ob slice k false (edge_of false (M + pw k)%Z k)) as PT. rewrite blo_bwd_new in PT. unfold newlo in PT.
    replace (M + pw k - pw k)%Z with M in PT by lia. rewrite PT. lra. }
  rewrite (bsum_ext M k _ (fun nx => (rt * ER) * w nx + (1 - rt) * (w nx * phi nx))) by (intros; rewrite T1; lra).
  rewrite (bsum_ext (M + pw k)%Z k _ (fun nx => (rf * EL) * w nx + (1 - rf) * (w nx * phi nx))) by (intros; rewrite T2; lra).
  rewrite !bsum_plus, !bsum_scal. fold SL SR. fold (Wb M k) (Wb (M + pw k)%Z k). fold A B.
  pose proof (Wb_nonneg Ob wpos M k) as PA. pose proof (Wb_nonneg Ob wpos (M + pw k)%Z k) as PB. fold A in PA. fold B in PB.
  assert (Rt : A * rt == Qmin A B).
  { unfold rt, Loop.rtop, newlo. apply top_ratio_min; auto. }
  assert (Rf : B * rf == Qmin A B).
  { unfold rf, Loop.rtop, newlo. replace (M + pw k - pw k)%Z with M by lia. fold A B. rewrite Q.min_comm. apply top_ratio_min; auto. }
  pose proof Epi_fwd as EF. fold ER in EF. pose proof Epi_bwd as EB. fold EL in EB.
  (* goal: rt*ER*A + (1-rt)*SL + (rf*EL*B + (1-rf)*SR) == SL + SR *)
  assert (X1 : rt * ER * A == rf * SR).
  { transitivity ((A * rt) * ER); [lra|]. rewrite Rt. rewrite <- EF. transitivity ((B * rf) * ER); [rewrite Rf; lra | lra]. }
  assert (X2 : rf * EL * B == rt * SL).
  { transitivity ((B * rf) * EL); [lra|]. rewrite Rf. rewrite <- EB. transitivity ((A * rt) * EL); [rewrite Rt; lra | lra]. }
  rewrite X1, X2. lra.
Qed.
End OneStep.
End Bl.
