From Coq Require Import QArith Qminmax ZArith List Bool Lia Lqa.
Require Import Mici.C01.Lib Mici.C01.Model Mici.C01.Build Mici.C01.Sym Mici.C01.Loop Mici.C01.Path Mici.C01.Bal.
Import ListNotations.
Open Scope Q_scope.

(* sums over all direction lists of a given length (cons-based) *)
Fixpoint dsum (m : nat) (h : list bool -> Q) : Q :=
  match m with O => h [] | S m' => dsum m' (fun ds => h (true :: ds)) + dsum m' (fun ds => h (false :: ds)) end.
Lemma dsum_ext m : forall h g, (forall ds, length ds = m -> h ds == g ds) -> dsum m h == dsum m g.
Proof. induction m; intros h g H; cbn [dsum]. apply H; reflexivity.
  apply Qplus_comp; apply IHm; intros; apply H; cbn; lia. Qed.
Lemma dsum_plus m : forall h g, dsum m (fun ds => h ds + g ds) == dsum m h + dsum m g.
Proof. induction m; intros; cbn [dsum]; [lra| rewrite !IHm; lra]. Qed.
Lemma dsum_scal m : forall c h, dsum m (fun ds => c * h ds) == c * dsum m h.
Proof. induction m; intros; cbn [dsum]; [lra| rewrite !IHm; lra]. Qed.

Section F.
Variable Ob : orbit. Variable slice extra : bool.
Hypothesis wpos : forall i, 0 <= wfun Ob i.
Notation w := (wfun Ob).
Notation pathE := (pathE Ob slice).

(* offset of the level-k block with remaining directions ds inside its final block *)
Fixpoint off (k : nat) (ds : list bool) : Z :=
  match ds with [] => 0%Z | d :: ds' => ((if d then 0 else pw k) + off (S k) ds')%Z end.

Lemma path_balance gam m : forall k L,
  dsum m (fun ds => bsum (L + off k ds)%Z k (fun nx => w nx * pathE gam k (L + off k ds)%Z ds nx))
  == bsum L (m + k) (fun z => w z * gam z).
Proof.
  induction m as [|m IH]; intros k L.
  - cbn [dsum off pathE plus]. replace (L + 0)%Z with L by lia. reflexivity.
  - cbn [dsum].
    rewrite <- dsum_plus.
    rewrite (dsum_ext m _ (fun ds => bsum (L + off (S k) ds)%Z (S k) (fun x => w x * pathE gam (S k) (L + off (S k) ds)%Z ds x))).
    + rewrite IH. replace (m + S k)%nat with (S m + k)%nat by lia. reflexivity.
    + intros ds _. cbn [off pathE].
      set (M := (L + off (S k) ds)%Z).
      replace (L + (0 + off (S k) ds))%Z with M by (unfold M; lia).
      replace (L + (pw k + off (S k) ds))%Z with (M + pw k)%Z by (unfold M; lia).
      assert (E1 : mlo true M k = M) by reflexivity.
      assert (E2 : mlo false (M + pw k)%Z k = M) by (unfold mlo; lia).
      rewrite E1, E2.
      apply (one_step Ob slice wpos (pathE gam (S k) M ds) M k).
Qed.
End F.
