From Coq Require Import QArith Qminmax ZArith List Bool Lia Lqa.
Require Import Mici.C01.Lib Mici.C01.Model Mici.C01.Build Mici.C01.Sym Mici.C01.Loop Mici.C01.Path Mici.C01.Bal Mici.C01.Fin Mici.C01.Tree.
Import ListNotations.
Open Scope Q_scope.

Section T2.
Variable Ob : orbit. Variable slice extra : bool.
Notation valid := (valid Ob extra).
Notation tm := (tm Ob extra).
Notation inok := (inok Ob extra).
Notation pathC := (pathC Ob extra).
Notation pathV := (pathV Ob extra).
Notation endpart := (endpart Ob extra).
Notation endC := (endC Ob extra).
Notation inokT := (inokT Ob extra).

Lemma endpart_sym ds : forall f k lo, ds <> [] -> (length ds <= f)%nat -> pathV k lo ds = true ->
  endpart f k lo ds == if tm (fin k lo ds) (pred (length ds + k)) then 1 else endC (f - length ds) (length ds + k) (fin k lo ds).
Proof.
  induction ds as [|d ds IH]; intros f k lo Hne Hf HV; [congruence|].
  destruct f as [|f]; [cbn in Hf; lia|]. cbn [length] in Hf.
  cbn [Tree.endpart fin length]. cbn [Tree.pathV] in HV.
  apply andb_true_iff in HV as [HV HV3]. apply andb_true_iff in HV as [HV1 HV2].
  destruct ds as [|d2 ds].
  - cbn [fin length plus pred Nat.sub Tree.endpart]. replace (f - 0)%nat with f by lia. reflexivity.
  - cbn [nonempty negb orb] in HV2. apply negb_true_iff in HV2. rewrite HV2.
    rewrite IH by (try discriminate; try (cbn [length] in *; lia); auto).
    replace (pred (S (length (d2 :: ds)) + k)) with (pred (length (d2 :: ds) + S k)) by (cbn [length]; lia).
    replace (S f - S (length (d2 :: ds)))%nat with (f - length (d2 :: ds))%nat by lia.
    replace (S (length (d2 :: ds)) + k)%nat with (length (d2 :: ds) + S k)%nat by lia.
    reflexivity.
Qed.

Definition Psi (f m : nat) (L : Z) : Q :=
  half m * b2q (inokT L m) * (match m with O => endC f 0 L | S m' => if tm L m' then 1 else endC (f - m) m L end).

Lemma pathC_sym f ds L : (length ds <= f)%nat -> dvg Ob (L + off 0 ds)%Z = false ->
  pathC f 0 (L + off 0 ds)%Z ds == Psi f (length ds) L.
Proof.
  intros Hf Hd. rewrite (pathC_V Ob extra) by auto. unfold Psi.
  destruct ds as [|d ds].
  - cbn [length off Tree.pathV Tree.endpart Tree.inokT b2q half] in *. replace (L + 0)%Z with L in * by lia.
    rewrite Hd. cbn [negb b2q]. reflexivity.
  - set (dd := d :: ds) in *.
    assert (Hin : inok (L + off 0 dd)%Z 0 = true) by (cbn [Sym.inok]; rewrite Hd; reflexivity).
    assert (Hne : dd <> []) by (unfold dd; discriminate).
    rewrite (pathV_inok Ob extra dd 0 _ Hin Hne). rewrite fin_off. replace (length dd + 0)%nat with (length dd) by lia.
    destruct (inokT L (length dd)) eqn:EI; cbn [b2q]; [|lra].
    rewrite endpart_sym; auto.
    2:{ rewrite (pathV_inok Ob extra dd 0 _ Hin Hne). rewrite fin_off. replace (length dd + 0)%nat with (length dd) by lia. exact EI. }
    rewrite fin_off. replace (length dd + 0)%nat with (length dd) by lia.
    unfold dd at 3 4. cbn [length pred]. fold dd. reflexivity.
Qed.
End T2.
