From Coq Require Import QArith Qminmax ZArith List Bool Lia Lqa.
Require Import Mici.C01.Lib Mici.C01.Model Mici.C01.Build Mici.C01.Sym Mici.C01.Loop.
Import ListNotations.
Open Scope Q_scope.

Definition leq (a b : list bool) : bool := if list_eq_dec bool_dec a b then true else false.
Lemma leq_true a b : leq a b = true <-> a = b.
Proof. unfold leq. destruct (list_eq_dec bool_dec a b); split; intros; auto; discriminate. Qed.
Definition suffix (a t : list bool) := exists pre, t = pre ++ a.
Lemma suffix_cons (b : bool) (a t : list bool) : suffix (b :: a) t -> suffix a t.
Proof. intros [pre ->]. exists (pre ++ [b]). rewrite <- app_assoc. reflexivity. Qed.
Lemma not_self_ext (ds' : list bool) d acc : acc <> rev ds' ++ d :: acc.
Proof. intros H. apply (f_equal (@length bool)) in H. rewrite app_length in H. cbn in H. lia. Qed.
Lemma wrong_dir_not_suffix (ds' : list bool) (d : bool) (acc : list bool) : ~ suffix (negb d :: acc) (rev ds' ++ d :: acc).
Proof.
  intros [pre H]. apply (f_equal (@rev bool)) in H. rewrite !rev_app_distr in H. cbn [rev] in H.
  rewrite <- !app_assoc in H. apply app_inv_head in H. cbn in H. inversion H. destruct d; discriminate.
Qed.
Lemma same_dir_eq (ds' : list bool) (d : bool) (acc : list bool) : d :: acc = rev ds' ++ d :: acc <-> ds' = [].
Proof.
  split; [|intros ->; reflexivity]. intros H.
  apply (f_equal (@length bool)) in H. rewrite app_length, rev_length in H. cbn in H.
  destruct ds'; [reflexivity| cbn in H; lia].
Qed.

Section P.
Variable Ob : orbit. Variable slice extra : bool.
Notation Wb := (Wb Ob).
Notation pi := (pi Ob slice).
Notation valid := (valid Ob extra).
Notation tm := (tm Ob extra).
Notation rtop := (rtop Ob slice).
Variable gam : Z -> Q.

Fixpoint pathE (k : nat) (lo : Z) (ds : list bool) (nx : Z) : Q :=
  match ds with
  | [] => gam nx
  | d :: ds' =>
      let M := mlo d lo k in
      bsum (newlo d lo k) k (fun z' => pi d (edge_of d lo k) k z' *
          (rtop d lo k * pathE (S k) M ds' z' + (1 - rtop d lo k) * pathE (S k) M ds' nx))
  end.
Definition b2q (b : bool) : Q := if b then 1 else 0.
Fixpoint pathC (f k : nat) (lo : Z) (ds : list bool) : Q :=
  match ds with
  | [] => match f with O => 1 | S _ => (1#2) * b2q (negb (valid true (edge_of true lo k) k)) + (1#2) * b2q (negb (valid false (edge_of false lo k) k)) end
  | d :: ds' =>
      match f with
      | O => 0
      | S f' => (1#2) * b2q (valid d (edge_of d lo k) k) *
                (if tm (mlo d lo k) k then b2q (match ds' with [] => true | _ => false end) else pathC f' (S k) (mlo d lo k) ds')
      end
  end.

Section T.
Variable target : list bool.
Definition Gt (nx : Z) (ds : list bool) : Q := if leq ds target then gam nx else 0.
Notation LEt := (LE Ob slice extra Gt).

Lemma LE_nosuffix f : forall k lo nx acc, ~ suffix acc target -> LEt f k lo nx acc == 0.
Proof.
  induction f as [|f IH]; intros k lo nx acc H.
  - cbn [LE]. unfold Gt. destruct (leq acc target) eqn:E; [|reflexivity].
    apply leq_true in E. exfalso; apply H. exists []. rewrite <- E. reflexivity.
  - cbn [LE].
    assert (G0 : forall x, Gt x acc == 0).
    { intros x. unfold Gt. destruct (leq acc target) eqn:E; [|reflexivity]. apply leq_true in E. exfalso; apply H. exists []. rewrite <- E. reflexivity. }
    assert (C0 : forall fwd x, (if tm (mlo fwd lo k) k then Gt x (fwd :: acc) else LEt f (S k) (mlo fwd lo k) x (fwd :: acc)) == 0).
    { intros fwd x. assert (~ suffix (fwd :: acc) target) by (intros S; apply H; eapply suffix_cons; eauto).
      destruct (tm _ _). - unfold Gt. destruct (leq (fwd :: acc) target) eqn:E; [|reflexivity]. apply leq_true in E. exfalso; apply H0. exists []. rewrite <- E. reflexivity.
      - apply IH; auto. }
    assert (R0 : forall fwd, (if valid fwd (edge_of fwd lo k) k then
          bsum (newlo fwd lo k) k (fun z' => pi fwd (edge_of fwd lo k) k z' * (rtop fwd lo k * (if tm (mlo fwd lo k) k then Gt z' (fwd :: acc) else LEt f (S k) (mlo fwd lo k) z' (fwd :: acc)) + (1 - rtop fwd lo k) * (if tm (mlo fwd lo k) k then Gt nx (fwd :: acc) else LEt f (S k) (mlo fwd lo k) nx (fwd :: acc))))
        else Gt nx acc) == 0).
    { intros fwd. destruct (valid _ _ _); [|apply G0]. apply bsum_zero; intros z' _. rewrite !C0. lra. }
    rewrite (R0 true), (R0 false). lra.
Qed.
End T.

Lemma LE_path ds : forall f k lo nx acc,
  LE Ob slice extra (Gt (rev ds ++ acc)) f k lo nx acc == pathC f k lo ds * pathE k lo ds nx.
Proof.
  induction ds as [|d ds' IH]; intros f k lo nx acc.
  - cbn [rev app pathC pathE]. destruct f as [|f].
    + cbn [LE pathC]. unfold Gt. assert (leq acc acc = true) as -> by (apply leq_true; reflexivity). cbv iota. lra.
    + cbn [LE pathC].
      assert (C0 : forall fwd x, (if tm (mlo fwd lo k) k then Gt acc x (fwd :: acc) else LE Ob slice extra (Gt acc) f (S k) (mlo fwd lo k) x (fwd :: acc)) == 0).
      { intros fwd x. assert (NS : ~ suffix (fwd :: acc) acc).
        { intros [pre H]. apply (f_equal (@length bool)) in H. rewrite app_length in H. cbn in H. lia. }
        destruct (tm _ _).
        - unfold Gt. destruct (leq (fwd :: acc) acc) eqn:E; [|reflexivity]. apply leq_true in E.
          apply (f_equal (@length bool)) in E. cbn in E. lia.
        - apply LE_nosuffix; auto. }
      assert (GA : Gt acc nx acc == gam nx) by (unfold Gt; assert (leq acc acc = true) as -> by (apply leq_true; reflexivity); cbv iota; reflexivity).
      assert (R : forall fwd, (if valid fwd (edge_of fwd lo k) k then
          bsum (newlo fwd lo k) k (fun z' => pi fwd (edge_of fwd lo k) k z' * (rtop fwd lo k * (if tm (mlo fwd lo k) k then Gt acc z' (fwd :: acc) else LE Ob slice extra (Gt acc) f (S k) (mlo fwd lo k) z' (fwd :: acc)) + (1 - rtop fwd lo k) * (if tm (mlo fwd lo k) k then Gt acc nx (fwd :: acc) else LE Ob slice extra (Gt acc) f (S k) (mlo fwd lo k) nx (fwd :: acc))))
        else Gt acc nx acc) == b2q (negb (valid fwd (edge_of fwd lo k) k)) * gam nx).
      { intros fwd. destruct (valid _ _ _); cbn [negb b2q]; [|rewrite GA; lra].
        rewrite bsum_zero; [lra|]. intros z' _. rewrite !C0. lra. }
      rewrite (R true), (R false). lra.
  - cbn [rev]. rewrite <- app_assoc. cbn [app].
    destruct f as [|f].
    + cbn [LE pathC]. unfold Gt. destruct (leq acc (rev ds' ++ d :: acc)) eqn:E; [|lra].
      apply leq_true in E. exfalso. eapply not_self_ext; eauto.
    + cbn [LE pathC pathE].
      set (tg := rev ds' ++ d :: acc).
      (* wrong direction contributes 0 *)
      assert (W : (if valid (negb d) (edge_of (negb d) lo k) k then
          bsum (newlo (negb d) lo k) k (fun z' => pi (negb d) (edge_of (negb d) lo k) k z' * (rtop (negb d) lo k * (if tm (mlo (negb d) lo k) k then Gt tg z' (negb d :: acc) else LE Ob slice extra (Gt tg) f (S k) (mlo (negb d) lo k) z' (negb d :: acc)) + (1 - rtop (negb d) lo k) * (if tm (mlo (negb d) lo k) k then Gt tg nx (negb d :: acc) else LE Ob slice extra (Gt tg) f (S k) (mlo (negb d) lo k) nx (negb d :: acc))))
        else Gt tg nx acc) == 0).
      { assert (NS : ~ suffix (negb d :: acc) tg) by apply wrong_dir_not_suffix.
        assert (C0 : forall x, (if tm (mlo (negb d) lo k) k then Gt tg x (negb d :: acc) else LE Ob slice extra (Gt tg) f (S k) (mlo (negb d) lo k) x (negb d :: acc)) == 0).
        { intros x. destruct (tm (mlo (negb d) lo k) k).
          - unfold Gt. destruct (leq (negb d :: acc) tg) eqn:E; [|reflexivity]. apply leq_true in E. exfalso; apply NS. exists []. rewrite <- E. reflexivity.
          - apply LE_nosuffix; auto. }
        destruct (valid _ _ _).
        - apply bsum_zero; intros z' _. rewrite !C0. lra.
        - unfold Gt. destruct (leq acc tg) eqn:E; [|reflexivity]. apply leq_true in E. exfalso. eapply not_self_ext; eauto. }
      (* right direction *)
      assert (Rt : (if valid d (edge_of d lo k) k then
          bsum (newlo d lo k) k (fun z' => pi d (edge_of d lo k) k z' * (rtop d lo k * (if tm (mlo d lo k) k then Gt tg z' (d :: acc) else LE Ob slice extra (Gt tg) f (S k) (mlo d lo k) z' (d :: acc)) + (1 - rtop d lo k) * (if tm (mlo d lo k) k then Gt tg nx (d :: acc) else LE Ob slice extra (Gt tg) f (S k) (mlo d lo k) nx (d :: acc))))
        else Gt tg nx acc) ==
        b2q (valid d (edge_of d lo k) k) * ((if tm (mlo d lo k) k then b2q (match ds' with [] => true | _ => false end) else pathC f (S k) (mlo d lo k) ds') *
          bsum (newlo d lo k) k (fun z' => pi d (edge_of d lo k) k z' * (rtop d lo k * pathE (S k) (mlo d lo k) ds' z' + (1 - rtop d lo k) * pathE (S k) (mlo d lo k) ds' nx)))).
      { destruct (valid d _ _); cbn [b2q].
        2:{ unfold Gt. destruct (leq acc tg) eqn:E; [|lra]. apply leq_true in E. exfalso. eapply not_self_ext; eauto. }
        rewrite Qmult_1_l. rewrite <- bsum_scal. apply bsum_ext; intros z' _.
        assert (CX : forall x, (if tm (mlo d lo k) k then Gt tg x (d :: acc) else LE Ob slice extra (Gt tg) f (S k) (mlo d lo k) x (d :: acc)) ==
                     (if tm (mlo d lo k) k then b2q (match ds' with [] => true | _ => false end) else pathC f (S k) (mlo d lo k) ds') * pathE (S k) (mlo d lo k) ds' x).
        { intros x. destruct (tm (mlo d lo k) k).
          - unfold Gt. destruct (leq (d :: acc) tg) eqn:E.
            + apply leq_true in E. apply same_dir_eq in E. rewrite E. cbn [pathE b2q]. lra.
            + destruct ds' as [|b ds'']; [|cbn [b2q]; lra].
              exfalso. assert (leq (d :: acc) tg = true) by (apply leq_true; reflexivity). congruence.
          - apply IH. }
        rewrite !CX. lra. }
      destruct d; cbn [negb] in W.
      * rewrite Rt, W. lra.
      * rewrite Rt, W. lra.
Qed.
End P.
