From Coq Require Import QArith Qminmax ZArith List Bool Lia Lqa.
Require Import Mici.C01.Lib Mici.C01.Model Mici.C01.Build Mici.C01.Sym.
Import ListNotations.
Open Scope Q_scope.

Section L.
Variable Ob : orbit. Variable slice extra : bool. Variable w0 : Q.
Notation Wb := (Wb Ob).
Notation pi := (pi Ob slice).
Notation valid := (valid Ob extra).
Notation term := (term Ob extra).
Notation mk := (mk Ob).
Notation loop := (loop Ob slice extra w0).

Definition tm (M : Z) (k : nat) : bool := term M (M + pw (S k) - 1)%Z (M + pw k - 1)%Z (S k).
(* geometry of one doubling from block (lo,k) *)
Definition edge_of (fwd : bool) (lo : Z) (k : nat) : Z := if fwd then (lo + pw k - 1)%Z else lo.
Definition newlo (fwd : bool) (lo : Z) (k : nat) : Z := if fwd then (lo + pw k)%Z else (lo - pw k)%Z.
Definition mlo (fwd : bool) (lo : Z) (k : nat) : Z := if fwd then lo else (lo - pw k)%Z.
Definition rtop (fwd : bool) (lo : Z) (k : nat) : Q := clip (ratio slice (Wb (newlo fwd lo k) k) (Wb lo k)).

Section G.
Variable Gm : Z -> list bool -> Q.
Fixpoint LE (f k : nat) (lo nx : Z) (ds : list bool) : Q :=
  match f with
  | O => Gm nx ds
  | S f' =>
      let R (fwd : bool) :=
        if valid fwd (edge_of fwd lo k) k then
          let M := mlo fwd lo k in
          let C (x : Z) := if tm M k then Gm x (fwd :: ds) else LE f' (S k) M x (fwd :: ds) in
          bsum (newlo fwd lo k) k (fun z' => pi fwd (edge_of fwd lo k) k z' * (rtop fwd lo k * C z' + (1 - rtop fwd lo k) * C nx))
        else Gm nx ds in
      (1#2) * R true + (1 - (1#2)) * R false
  end.

Lemma merge_fwd lo k nx z x : merge (mk lo k nx) (mk (lo + pw k)%Z k z) x = mk lo (S k) x.
Proof. unfold merge, Build.mk. cbn [Model.lo hi wgt dep]. f_equal; try (cbn [pw]; lia); try (unfold Build.Wb; cbn [bsum]; reflexivity). Qed.
Lemma merge_bwd lo k nx z x : merge (mk (lo - pw k)%Z k z) (mk lo k nx) x = mk (lo - pw k)%Z (S k) x.
Proof. unfold merge, Build.mk. cbn [Model.lo hi wgt dep]. f_equal; try (cbn [pw]; lia); try (unfold Build.Wb; cbn [bsum]; replace (lo - pw k + pw k)%Z with lo by lia; reflexivity). Qed.


Definition gG := fun o : out => Gm (next o) (o_dirs o).
Lemma cont_indep f
  (IH : forall k t nx st st' ds, ex (loop f k t nx st ds) gG == ex (loop f k t nx st' ds) gG)
  (k : nat) (t : sub) (nx : Z) (ds : list bool) (fwd : bool) :
  stat_indep (fun r : option sub * stats =>
     ex (let (o, st1) := r in
         match o with
         | Some nw =>
             Flip (ratio slice (wgt nw) (wgt t))
               (let t' := merge (if fwd then t else nw) (if fwd then nw else t) (prop nw) in
                if termsub Ob extra t' (if fwd then t else nw) (if fwd then nw else t)
                then Ret (finish t' (prop nw) st1 k (fwd :: ds)) else loop f (S k) t' (prop nw) st1 (fwd :: ds))
               (let t' := merge (if fwd then t else nw) (if fwd then nw else t) nx in
                if termsub Ob extra t' (if fwd then t else nw) (if fwd then nw else t)
                then Ret (finish t' nx st1 k (fwd :: ds)) else loop f (S k) t' nx st1 (fwd :: ds))
         | None => Ret (finish t nx st1 k ds)
         end) gG).
Proof.
  intros o s s'. destruct o as [nw|]; cbn [ex]; [|reflexivity].
  apply Qplus_comp; (apply Qmult_comp; [reflexivity|]).
  - cbn zeta. destruct (termsub _ _ _ _ _); [reflexivity| apply IH].
  - cbn zeta. destruct (termsub _ _ _ _ _); [reflexivity| apply IH].
Qed.
Lemma loop_stat_indep f : forall k t nx st st' ds, ex (loop f k t nx st ds) gG == ex (loop f k t nx st' ds) gG.
Proof.
  induction f as [|f IH]; intros k t nx st st' ds.
  - cbn [Model.loop ex]. reflexivity.
  - cbn [Model.loop]. cbn [ex].
    apply Qplus_comp; (apply Qmult_comp; [reflexivity|]).
    + rewrite !ex_bind. rewrite !(build_spec Ob slice extra w0) by (apply (cont_indep f IH k t nx ds true)).
      destruct (Build.valid _ _ _ _ _); [|exact (cont_indep f IH k t nx ds true None st st')].
      apply bsum_ext; intros j _. apply Qmult_comp; [reflexivity|]. exact (cont_indep f IH k t nx ds true (Some _) st st').
    + rewrite !ex_bind. rewrite !(build_spec Ob slice extra w0) by (apply (cont_indep f IH k t nx ds false)).
      destruct (Build.valid _ _ _ _ _); [|exact (cont_indep f IH k t nx ds false None st st')].
      apply bsum_ext; intros j _. apply Qmult_comp; [reflexivity|]. exact (cont_indep f IH k t nx ds false (Some _) st st').
Qed.

Lemma loop_LE f : forall k lo nx st ds,
  ex (loop f k (mk lo k nx) nx st ds) gG == LE f k lo nx ds.
Proof.
  induction f as [|f IH]; intros k lo nx st ds.
  - cbn [Model.loop ex LE]. reflexivity.
  - cbn [Model.loop LE]. cbn [ex]. rewrite (clip_id (1#2)) by lra.
    pose proof (pw_pos k) as Hp.
    apply Qplus_comp; (apply Qmult_comp; [reflexivity|]).
    + rewrite ex_bind. rewrite (build_spec Ob slice extra w0) by (apply (cont_indep f (loop_stat_indep f) k _ nx ds true)).
      cbn [Build.mk hi Model.lo]. unfold edge_of.
      destruct (Build.valid _ _ _ _ _); [|reflexivity].
      unfold blo, newlo. replace (lo + pw k - 1 + 1)%Z with (lo + pw k)%Z by lia.
      apply bsum_ext; intros z' _. apply Qmult_comp; [reflexivity|].
      cbn [ex]. cbn zeta. rewrite !merge_fwd. unfold termsub. cbn [Build.mk Model.lo hi dep wgt prop].
      unfold mlo, rtop, newlo, tm.
      replace (lo + pw k + pw k - 1)%Z with (lo + pw (S k) - 1)%Z by (cbn [pw]; lia).
      apply Qplus_comp; (apply Qmult_comp; [reflexivity|]).
      * destruct (Model.term _ _ _ _ _ _); [reflexivity| apply IH].
      * destruct (Model.term _ _ _ _ _ _); [reflexivity| apply IH].
    + rewrite ex_bind. rewrite (build_spec Ob slice extra w0) by (apply (cont_indep f (loop_stat_indep f) k _ nx ds false)).
      cbn [Build.mk hi Model.lo]. unfold edge_of.
      destruct (Build.valid _ _ _ _ _); [|reflexivity].
      unfold blo, newlo.
      apply bsum_ext; intros z' _. apply Qmult_comp; [reflexivity|].
      cbn [ex]. cbn zeta. rewrite !merge_bwd. unfold termsub. cbn [Build.mk Model.lo hi dep wgt prop].
      unfold mlo, rtop, newlo, tm.
      replace (lo + pw k - 1)%Z with (lo - pw k + pw (S k) - 1)%Z by (cbn [pw]; lia).
      apply Qplus_comp; (apply Qmult_comp; [reflexivity|]).
      * destruct (Model.term _ _ _ _ _ _); [reflexivity| apply IH].
      * destruct (Model.term _ _ _ _ _ _); [reflexivity| apply IH].
Qed.
End G.
End L.
