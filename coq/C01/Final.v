From Coq Require Import QArith Qminmax ZArith List Bool Lia Lqa.
Require Import Mici.C01.Lib Mici.C01.Model Mici.C01.Build Mici.C01.Sym Mici.C01.Loop Mici.C01.Path Mici.C01.Bal Mici.C01.Fin Mici.C01.Tree Mici.C01.Tree2 Mici.C01.Total.
Import ListNotations.
Open Scope Q_scope.

Section Fn.
Variable Ob : orbit. Variable slice extra : bool. Variable w0 : Q.
Hypothesis wpos : forall i, 0 <= wfun Ob i.
Hypothesis Hdiv : forall i, ~ wfun Ob i == 0 -> dvg Ob i = false.
Notation w := (wfun Ob).
Notation pathC := (pathC Ob extra).
Notation pathE := (pathE Ob slice).
Notation sample := (sample Ob slice extra w0).
Notation Psi := (Psi Ob extra).

Lemma leaf_mk i : leaf Ob i = mk Ob i 0 i.
Proof. unfold leaf, mk, Build.Wb. cbn [bsum pw]. f_equal. lia. Qed.

Lemma pathE_one ds : forall k lo nx, pathE (fun _ => 1) k lo ds nx == 1.
Proof.
  induction ds as [|d ds IH]; intros k lo nx; cbn [Path.pathE]. reflexivity.
  rewrite (bsum_ext _ _ _ (fun z' => pi Ob slice d (edge_of d lo k) k z')) by (intros; rewrite !IH; lra).
  pose proof (pi_total Ob slice k d (edge_of d lo k)) as PT.
  destruct d; [rewrite blo_fwd_new in PT | rewrite blo_bwd_new in PT]; exact PT.
Qed.

(* probability of the event "dirs = rev ds and next = j" from start i *)
Definition dlt (j : Z) : Z -> Q := fun z => if Z.eqb z j then 1 else 0.
Definition pev (maxd : nat) (i j : Z) (ds : list bool) : Q :=
  ex (sample maxd i) (fun o => Gt (dlt j) (rev ds) (next o) (o_dirs o)).
Lemma pev_path maxd i j ds : pev maxd i j ds == pathC maxd 0 i ds * pathE (dlt j) 0 i ds i.
Proof.
  unfold pev, Model.sample. rewrite leaf_mk.
  rewrite (loop_LE Ob slice extra w0 (Gt (dlt j) (rev ds)) maxd 0 i i (st0) []).
  rewrite <- (LE_path Ob slice extra (dlt j) ds maxd 0 i i []). rewrite app_nil_r. reflexivity.
Qed.

Lemma wC_sym maxd ds L : (length ds <= maxd)%nat ->
  w (L + off 0 ds)%Z * pathC maxd 0 (L + off 0 ds)%Z ds == w (L + off 0 ds)%Z * Psi maxd (length ds) L.
Proof.
  intros Hl. destruct (Qeq_dec (w (L + off 0 ds)%Z) 0) as [E|E].
  - rewrite E. lra.
  - rewrite (pathC_sym Ob extra maxd ds L Hl (Hdiv _ E)). reflexivity.
Qed.

Lemma bsum_dlt L m j : (L <= j < L + pw m)%Z -> bsum L m (fun z => w z * dlt j z) == w j.
Proof.
  intros H. rewrite (bsum_ext _ _ _ (fun z => if Z.eqb z j then w j else 0)).
  - apply bsum_delta; auto.
  - intros z _. unfold dlt. destruct (Z.eqb_spec z j); [subst; lra| lra].
Qed.

Lemma total_one maxd j : allsum maxd (fun ds => pathC maxd 0 j ds) == 1.
Proof.
  pose proof (LE_total Ob slice extra (fun _ => 1) maxd 0 j j []) as T.
  rewrite (allsum_ext maxd _ (fun ds => pathC maxd 0 j ds)) in T by (intros; rewrite pathE_one; lra).
  rewrite <- T.
  rewrite <- (loop_LE Ob slice extra w0 (fun _ _ => 1) maxd 0 j j st0 []).
  unfold gG. apply ex_const.
Qed.

Definition inflow (maxd : nat) (j : Z) : Q :=
  sumn (S maxd) (fun m => dsum m (fun ds' => dsum m (fun ds =>
     w (j - off 0 ds' + off 0 ds)%Z * pev maxd (j - off 0 ds' + off 0 ds)%Z j ds))).

Theorem dynamic_invariant_dirs maxd j : inflow maxd j == w j.
Proof.
  unfold inflow.
  rewrite (sumn_ext _ _ (fun m => dsum m (fun ds' => w j * pathC maxd 0 j ds'))).
  - rewrite (sumn_ext _ _ (fun m => w j * dsum m (fun ds' => pathC maxd 0 j ds'))) by (intros; apply dsum_scal).
    rewrite sumn_scal. fold (allsum maxd (fun ds' => pathC maxd 0 j ds')). rewrite total_one. lra.
  - intros m Hm. apply dsum_ext; intros ds' Hl'.
    set (L := (j - off 0 ds')%Z).
    rewrite (dsum_ext m _ (fun ds => Psi maxd m L * (bsum (L + off 0 ds)%Z 0 (fun nx => w nx * pathE (dlt j) 0 (L + off 0 ds)%Z ds nx)))).
    + rewrite dsum_scal. rewrite (path_balance Ob slice wpos (dlt j) m 0 L).
      replace (m + 0)%nat with m by lia.
      pose proof (off_range ds' 0) as OR. rewrite Hl' in OR. replace (m + 0)%nat with m in OR by lia. cbn [pw] in OR.
      rewrite bsum_dlt by (unfold L; lia).
      assert (EJ : j = (L + off 0 ds')%Z) by (unfold L; lia).
      pose proof (wC_sym maxd ds' L ltac:(lia)) as SY. rewrite <- EJ in SY. rewrite Hl' in SY. rewrite SY. lra.
    + intros ds Hl. cbn [bsum]. rewrite pev_path.
      transitivity ((w (L + off 0 ds)%Z * pathC maxd 0 (L + off 0 ds)%Z ds) * pathE (dlt j) 0 (L + off 0 ds)%Z ds (L + off 0 ds)%Z); [lra|].
      rewrite (wC_sym maxd ds L) by lia. rewrite Hl. lra.
Qed.
End Fn.
Print Assumptions dynamic_invariant_dirs.
