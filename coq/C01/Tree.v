From Coq Require Import QArith Qminmax ZArith List Bool Lia Lqa.
Require Import Mici.C01.Lib Mici.C01.Model Mici.C01.Build Mici.C01.Sym Mici.C01.Loop Mici.C01.Path Mici.C01.Bal Mici.C01.Fin.
Import ListNotations.
Open Scope Q_scope.

Section T.
Variable Ob : orbit. Variable slice extra : bool.
Notation valid := (valid Ob extra).
Notation tm := (tm Ob extra).
Notation inok := (inok Ob extra).
Notation pathC := (pathC Ob extra).

Fixpoint fin (k : nat) (lo : Z) (ds : list bool) : Z :=
  match ds with [] => lo | d :: ds' => fin (S k) (mlo d lo k) ds' end.
Lemma fin_off ds : forall k L, fin k (L + off k ds)%Z ds = L.
Proof.
  induction ds as [|d ds IH]; intros k L; cbn [fin off]. lia.
  destruct d; unfold mlo.
  - replace (L + (0 + off (S k) ds))%Z with (L + off (S k) ds)%Z by lia. apply IH.
  - replace (L + (pw k + off (S k) ds) - pw k)%Z with (L + off (S k) ds)%Z by lia. apply IH.
Qed.
Lemma off_range ds : forall k, (0 <= off k ds <= pw (length ds + k) - pw k)%Z.
Proof.
  induction ds as [|d ds IH]; intros k; cbn [off length plus]. lia.
  specialize (IH (S k)). replace (length ds + S k)%nat with (S (length ds + k)) in IH by lia.
  pose proof (pw_pos k). cbn [pw] in *. destruct d; lia.
Qed.

Definition nonempty (ds : list bool) : bool := match ds with [] => false | _ => true end.
Fixpoint pathV (k : nat) (lo : Z) (ds : list bool) : bool :=
  match ds with
  | [] => true
  | d :: ds' => valid d (edge_of d lo k) k && (negb (nonempty ds') || negb (tm (mlo d lo k) k)) && pathV (S k) (mlo d lo k) ds'
  end.
Definition endC (f k : nat) (lo : Z) : Q := pathC f k lo [].
Fixpoint endpart (f k : nat) (lo : Z) (ds : list bool) {struct ds} : Q :=
  match ds with
  | [] => endC f k lo
  | d :: ds' => match f with O => 0 | S f' => if tm (mlo d lo k) k then 1 else endpart f' (S k) (mlo d lo k) ds' end
  end.
Fixpoint half (m : nat) : Q := match m with O => 1 | S m' => (1#2) * half m' end.

Lemma pathC_V ds : forall f k lo, (length ds <= f)%nat ->
  pathC f k lo ds == half (length ds) * b2q (pathV k lo ds) * endpart f k lo ds.
Proof.
  induction ds as [|d ds IH]; intros f k lo Hf.
  - cbn [length half pathV endpart b2q]. unfold endC. lra.
  - destruct f as [|f]; [cbn in Hf; lia|]. cbn [length] in Hf.
    cbn [Path.pathC length half pathV endpart].
    destruct (valid d (edge_of d lo k) k); cbn [andb b2q]; [|lra].
    destruct (tm (mlo d lo k) k) eqn:ET.
    + destruct ds as [|d2 ds]; cbn [nonempty negb orb andb b2q pathV length half]. lra. lra.
    + rewrite IH by lia. replace (negb (nonempty ds) || negb false) with true by (destruct (nonempty ds); reflexivity).
      cbn [andb]. lra.
Qed.

(* top-open validity of a block *)
Definition inokT (F : Z) (n : nat) : bool :=
  match n with O => negb (dvg Ob F) | S n' => inok F n' && okE Ob (F + pw n' - 1)%Z && inok (F + pw n')%Z n' end.
Lemma inok_S M k : inok M (S k) = inokT M (S k) && negb (tm M k).
Proof. cbn [Sym.inok inokT]. unfold Loop.tm. reflexivity. Qed.
Lemma inok_halves M k : inok M (S k) = true -> inok M k = true /\ inok (M + pw k)%Z k = true.
Proof. rewrite inok_S. cbn [inokT]. intros H. apply andb_true_iff in H as [H _]. apply andb_true_iff in H as [H H2]. apply andb_true_iff in H as [H1 _]. auto. Qed.
Lemma inokT_halves M k : inokT M (S k) = true -> inok M k = true /\ inok (M + pw k)%Z k = true.
Proof. cbn [inokT]. intros H. apply andb_true_iff in H as [H H2]. apply andb_true_iff in H as [H1 _]. auto. Qed.
Lemma mlo_half d M k : (M = mlo d M k \/ M = (mlo d M k + pw k)%Z).
Proof. destruct d; unfold mlo; [left|right]; lia. Qed.

Lemma inokT_sub ds : forall k M, ds <> [] -> inokT (fin k M ds) (length ds + k) = true -> inok M k = true.
Proof.
  induction ds as [|d ds IH]; intros k M Hne H; [congruence|].
  cbn [fin length] in H. destruct ds as [|d2 ds].
  - cbn [fin length plus] in H. apply inokT_halves in H as [H1 H2].
    destruct (mlo_half d M k) as [E|E]; rewrite E at 1; auto.
  - replace (S (length (d2 :: ds)) + k)%nat with (length (d2 :: ds) + S k)%nat in H by (cbn; lia).
    apply IH in H; [|discriminate]. apply inok_halves in H as [H1 H2].
    destruct (mlo_half d M k) as [E|E]; rewrite E at 1; auto.
Qed.

Lemma pathV_inok ds : forall k lo, inok lo k = true -> ds <> [] ->
  pathV k lo ds = inokT (fin k lo ds) (length ds + k).
Proof.
  induction ds as [|d ds IH]; intros k lo Hin Hne; [congruence|].
  cbn [pathV fin length].
  set (M := mlo d lo k).
  assert (HV : valid d (edge_of d lo k) k = inokT M (S k)).
  { cbn [inokT]. destruct d; unfold M, mlo, edge_of.
    - rewrite (valid_fwd Ob extra). replace (lo + pw k - 1 + 1)%Z with (lo + pw k)%Z by lia. rewrite Hin. cbn [andb]. reflexivity.
    - rewrite (valid_bwd Ob extra). replace (lo - pw k + pw k - 1)%Z with (lo - 1)%Z by lia.
      replace (lo - pw k + pw k)%Z with lo by lia. rewrite Hin.
      destruct (okE Ob (lo - 1)), (inok (lo - pw k) k); reflexivity. }
  destruct ds as [|d2 ds].
  - cbn [nonempty negb orb pathV fin length plus]. rewrite !andb_true_r. exact HV.
  - cbn [nonempty negb orb].
    replace (S (length (d2 :: ds)) + k)%nat with (length (d2 :: ds) + S k)%nat by (cbn; lia).
    destruct (valid d (edge_of d lo k) k && negb (tm M k)) eqn:E.
    + assert (inok M (S k) = true) by (rewrite inok_S, <- HV; exact E).
      rewrite <- (IH (S k) M H) by discriminate. reflexivity.
    + assert (Hf : inok M (S k) = false) by (rewrite inok_S, <- HV; exact E).
      cbn [andb]. destruct (inokT (fin (S k) M (d2 :: ds)) (length (d2 :: ds) + S k)) eqn:E2; [|reflexivity].
      apply inokT_sub in E2; [|discriminate]. congruence.
Qed.
End T.
