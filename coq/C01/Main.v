From Coq Require Import QArith Qminmax ZArith List Bool Lia Lqa.
Require Import Mici.C01.Lib Mici.C01.Model Mici.C01.Build Mici.C01.Sym Mici.C01.Loop Mici.C01.Path Mici.C01.Bal Mici.C01.Fin Mici.C01.Tree Mici.C01.Tree2 Mici.C01.Total Mici.C01.Final Mici.C01.Reindex.
Import ListNotations.
Open Scope Q_scope.

Lemma pw_mono a b : (a <= b)%nat -> (pw a <= pw b)%Z.
Proof. induction 1. lia. cbn [pw]. pose proof (pw_pos m). lia. Qed.

Lemma dsum_swap m1 : forall m2 (g : list bool -> list bool -> Q),
  dsum m1 (fun a => dsum m2 (fun b => g a b)) == dsum m2 (fun b => dsum m1 (fun a => g a b)).
Proof.
  induction m1; intros m2 g; cbn [dsum]. reflexivity.
  rewrite (IHm1 m2 (fun a b => g (true :: a) b)), (IHm1 m2 (fun a b => g (false :: a) b)).
  rewrite <- dsum_plus. reflexivity.
Qed.

Section Mn.
Variable Ob : orbit. Variable slice extra : bool. Variable w0 : Q.
Hypothesis wpos : forall i, 0 <= wfun Ob i.
Hypothesis Hdiv : forall i, ~ wfun Ob i == 0 -> dvg Ob i = false.
Notation w := (wfun Ob).
Notation pathC := (pathC Ob extra).
Notation pathE := (pathE Ob slice).
Notation sample := (sample Ob slice extra w0).
Notation pev := (pev Ob slice extra w0).

Lemma fin_sub ds k lo : fin k lo ds = (lo - off k ds)%Z.
Proof. pose proof (fin_off ds k (lo - off k ds)%Z) as H. replace (lo - off k ds + off k ds)%Z with lo in H by lia. exact H. Qed.

Lemma pathE_support j ds : forall k lo nx, (lo <= nx < lo + pw k)%Z ->
  ~ (fin k lo ds <= j < fin k lo ds + pw (length ds + k))%Z -> pathE (dlt j) k lo ds nx == 0.
Proof.
  induction ds as [|d ds IH]; intros k lo nx Hnx Hj; cbn [Path.pathE fin length plus] in *.
  - unfold dlt. destruct (Z.eqb_spec nx j); [subst; lia| reflexivity].
  - pose proof (pw_pos k) as Hp.
    replace (S (length ds + k)) with (length ds + S k)%nat in Hj by lia.
    apply bsum_zero; intros z' Hz.
    rewrite (IH (S k) (mlo d lo k) z'), (IH (S k) (mlo d lo k) nx); auto; try lra;
      destruct d; unfold mlo, newlo in *; cbn [pw]; lia.
Qed.

Lemma pev_support maxd i j ds : ~ (i - off 0 ds <= j < i - off 0 ds + pw (length ds))%Z -> pev maxd i j ds == 0.
Proof.
  intros H. rewrite (pev_path Ob slice extra w0). rewrite pathE_support; [lra| cbn [pw]; lia|].
  rewrite fin_sub. replace (length ds + 0)%nat with (length ds) by lia. exact H.
Qed.

Lemma next_partition maxd i j :
  ex (sample maxd i) (fun o => dlt j (next o)) == allsum maxd (fun ds => pev maxd i j ds).
Proof.
  unfold Model.sample. rewrite leaf_mk.
  rewrite (loop_LE Ob slice extra w0 (fun nx _ => dlt j nx) maxd 0 i i st0 []).
  rewrite (LE_total Ob slice extra (dlt j) maxd 0 i i []).
  apply allsum_ext; intros ds. rewrite (pev_path Ob slice extra w0). reflexivity.
Qed.

Theorem dynamic_invariant maxd j :
  wsum (j - pw maxd + 1)%Z (Z.to_nat (2 * pw maxd - 1))
       (fun i => w i * ex (sample maxd i) (fun o => dlt j (next o))) == w j.
Proof.
  pose proof (pw_pos maxd) as HN.
  rewrite <- (dynamic_invariant_dirs Ob slice extra w0 wpos Hdiv maxd j). unfold inflow.
  rewrite (wsum_ext _ _ _ (fun i => sumn (S maxd) (fun m => dsum m (fun ds => w i * pev maxd i j ds)))).
  2:{ intros i _. rewrite next_partition. unfold allsum. rewrite <- sumn_scal. apply sumn_ext; intros. rewrite <- dsum_scal. reflexivity. }
  rewrite wsum_swap_sumn. apply sumn_ext; intros m Hm.
  rewrite wsum_swap_dsum.
  rewrite (dsum_swap m m (fun ds' ds => w (j - off 0 ds' + off 0 ds)%Z * pev maxd (j - off 0 ds' + off 0 ds)%Z j ds)).
  apply dsum_ext; intros ds Hl.
  set (c := (j + off 0 ds)%Z).
  set (f := fun i : Z => w i * pev maxd i j ds).
  rewrite (dsum_ext m _ (fun ds' => f (c - off 0 ds')%Z)).
  2:{ intros ds' _. unfold f, c. replace (j + off 0 ds - off 0 ds')%Z with (j - off 0 ds' + off 0 ds)%Z by lia. reflexivity. }
  rewrite dsum_off_neg. rewrite <- wsum_bsum.
  pose proof (off_range ds 0) as OR. rewrite Hl in OR. replace (m + 0)%nat with m in OR by lia. cbn [pw] in OR.
  assert (PM : (pw m <= pw maxd)%Z) by (apply pw_mono; lia).
  pose proof (pw_pos m) as Hpm.
  apply wsum_restrict; try (unfold c; lia).
  intros i Hi Hout. unfold f. rewrite pev_support; [lra|]. rewrite Hl. unfold c in Hout. lia.
Qed.
End Mn.

Print Assumptions dynamic_invariant.
