From Coq Require Import QArith Qminmax ZArith List Bool Lia Lqa.
Require Import Mici.C01.Lib.
Open Scope Q_scope.

Fixpoint pw (k : nat) : Z := match k with O => 1%Z | S k' => (2 * pw k')%Z end.
Lemma pw_pos k : (0 < pw k)%Z. Proof. induction k; cbn [pw]; lia. Qed.

Record orbit := { wt : Z -> Q; okE : Z -> bool; dvg : Z -> bool; crit : Z -> Z -> bool; wfun : Z -> Q }.
Record stats := { n_step : nat; sum_acc : Q; f_div : bool; f_err : bool }.
Record sub := { lo : Z; hi : Z; wgt : Q; prop : Z; dep : nat }.
Definition ratio (slice : bool) (num den : Q) : Q :=
  if Qeq_bool den 0 then (if slice then Qmin num 1 else 0) else Qmin (num / den) 1.

Section Dyn.
Variable Ob : orbit. Variable slice extra : bool. Variable w0 : Q.
Definition term (tlo thi mid : Z) (d : nat) : bool :=
  crit Ob tlo thi || ((1 <? d)%nat && extra && (crit Ob tlo (mid + 1) || crit Ob mid thi)).
Definition termsub (t nl nr : sub) : bool := term (lo t) (hi t) (hi nl) (dep t).
Definition merge (nl nr : sub) (p : Z) : sub :=
  {| lo := lo nl; hi := hi nr; wgt := wgt nl + wgt nr; prop := p; dep := S (dep nl) |}.
Definition st_err st := {| n_step := n_step st; sum_acc := sum_acc st; f_div := f_div st; f_err := true |}.
Definition st_step st j := {| n_step := S (n_step st); sum_acc := sum_acc st + Qmin 1 (wt Ob j / w0); f_div := f_div st; f_err := f_err st |}.
Definition st_div st := {| n_step := n_step st; sum_acc := sum_acc st; f_div := true; f_err := f_err st |}.
Definition leaf (j : Z) : sub := {| lo := j; hi := j; wgt := wfun Ob j; prop := j; dep := 0 |}.
Fixpoint build (d : nat) (edge : Z) (fwd : bool) (st : stats) : ptree (option sub * stats) :=
  match d with
  | O =>
      let j := if fwd then (edge + 1)%Z else (edge - 1)%Z in
      let e := if fwd then edge else (edge - 1)%Z in
      if negb (okE Ob e) then Ret (None, st_err st)
      else if dvg Ob j then Ret (None, st_div (st_step st j))
      else Ret (Some (leaf j), st_step st j)
  | S d' =>
      bind (build d' edge fwd st) (fun r1 =>
        match r1 with
        | (None, st1) => Ret (None, st1)
        | (Some inner, st1) =>
            let edge2 := if fwd then hi inner else lo inner in
            bind (build d' edge2 fwd st1) (fun r2 =>
              match r2 with
              | (None, st2) => Ret (None, st2)
              | (Some outer, st2) =>
                  let nl := if fwd then inner else outer in
                  let nr := if fwd then outer else inner in
                  let p := ratio slice (wgt outer) (wgt nl + wgt nr) in
                  Flip p (let t := merge nl nr (prop outer) in Ret (if termsub t nl nr then None else Some t, st2))
                         (let t := merge nl nr (prop inner) in Ret (if termsub t nl nr then None else Some t, st2))
              end)
        end)
  end.
Record out := { next : Z; o_nstep : nat; o_acc : Q; o_depth : nat; o_div : bool; o_err : bool; o_lo : Z; o_hi : Z; o_dirs : list bool }.
Definition finish (t : sub) (nx : Z) (st : stats) (dp : nat) (ds : list bool) : out :=
  {| next := nx; o_nstep := n_step st; o_acc := sum_acc st; o_depth := dp; o_div := f_div st; o_err := f_err st; o_lo := lo t; o_hi := hi t; o_dirs := ds |}.
(* ds: directions of successful doublings so far, most recent first *)
Fixpoint loop (fuel k : nat) (t : sub) (nx : Z) (st : stats) (ds : list bool) : ptree out :=
  match fuel with
  | O => Ret (finish t nx st (pred k) ds)
  | S fuel' =>
      let go (fwd : bool) : ptree out :=
        let edge := if fwd then hi t else lo t in
        bind (build k edge fwd st) (fun r =>
          match r with
          | (None, st1) => Ret (finish t nx st1 k ds)
          | (Some nw, st1) =>
              let p := ratio slice (wgt nw) (wgt t) in
              let nl := if fwd then t else nw in
              let nr := if fwd then nw else t in
              let cont (nx' : Z) : ptree out :=
                let t' := merge nl nr nx' in
                if termsub t' nl nr then Ret (finish t' nx' st1 k (fwd :: ds)) else loop fuel' (S k) t' nx' st1 (fwd :: ds) in
              Flip p (cont (prop nw)) (cont nx)
          end) in
      Flip (1#2) (go true) (go false)
  end.
Definition st0 := {| n_step := 0; sum_acc := 0; f_div := false; f_err := false |}.
Definition sample (maxd : nat) (i : Z) : ptree out := loop maxd 0 (leaf i) i st0 nil.
End Dyn.
