From Coq Require Import QArith Qminmax ZArith List Bool Lia Lqa.
Require Import Mici.C01.Lib Mici.C01.Model.
Open Scope Q_scope.

Global Instance ratio_proper s : Proper (Qeq ==> Qeq ==> Qeq) (ratio s).
Proof.
  intros a b H c d H'. unfold ratio.
  assert (E : Qeq_bool c 0 = Qeq_bool d 0).
  { destruct (Qeq_bool c 0) eqn:E1, (Qeq_bool d 0) eqn:E2; auto.
    - apply Qeq_bool_iff in E1. apply Qeq_bool_neq in E2. exfalso; apply E2; rewrite <- H'; auto.
    - apply Qeq_bool_iff in E2. apply Qeq_bool_neq in E1. exfalso; apply E1; rewrite H'; auto. }
  rewrite E. destruct (Qeq_bool d 0) eqn:E2.
  - destruct s; [rewrite H|]; reflexivity.
  - apply Qeq_bool_neq in E2. rewrite H, H'. reflexivity.
Qed.

(* block sums, recursive on depth *)
Fixpoint bsum (l : Z) (d : nat) (f : Z -> Q) : Q :=
  match d with O => f l | S d' => bsum l d' f + bsum (l + pw d')%Z d' f end.
Lemma bsum_ext l d f g : (forall j, (l <= j < l + pw d)%Z -> f j == g j) -> bsum l d f == bsum l d g.
Proof.
  revert l; induction d; intros l H; cbn [bsum pw] in *. - apply H; lia.
  - pose proof (pw_pos d). rewrite IHd, (IHd (l + pw d)%Z); [reflexivity| |]; intros; apply H; lia.
Qed.
Lemma bsum_plus l d f g : bsum l d (fun j => f j + g j) == bsum l d f + bsum l d g.
Proof. revert l; induction d; intros; cbn [bsum]; [lra| rewrite !IHd; lra]. Qed.
Lemma bsum_scal l d c f : bsum l d (fun j => c * f j) == c * bsum l d f.
Proof. revert l; induction d; intros; cbn [bsum]; [lra| rewrite !IHd; lra]. Qed.
Lemma bsum_zero l d f : (forall j, (l <= j < l + pw d)%Z -> f j == 0) -> bsum l d f == 0.
Proof. intros H. rewrite (bsum_ext _ _ _ (fun _ => 0) H). clear. revert l; induction d; intros; cbn [bsum]; [lra| rewrite !IHd; lra]. Qed.
Lemma bsum_nonneg l d f : (forall j, (l <= j < l + pw d)%Z -> 0 <= f j) -> 0 <= bsum l d f.
Proof.
  revert l; induction d; intros l H; cbn [bsum pw] in *. - apply H; lia.
  - pose proof (pw_pos d). assert (0 <= bsum l d f) by (apply IHd; intros; apply H; lia).
    assert (0 <= bsum (l + pw d) d f) by (apply IHd; intros; apply H; lia). lra.
Qed.
Lemma bsum_delta l d j c : (l <= j < l + pw d)%Z -> bsum l d (fun z => if Z.eqb z j then c else 0) == c.
Proof.
  revert l; induction d; intros l H; cbn [bsum pw] in *.
  - assert (l = j) by lia. subst. rewrite Z.eqb_refl. reflexivity.
  - pose proof (pw_pos d). destruct (Z_lt_dec j (l + pw d)).
    + rewrite IHd by lia. rewrite bsum_zero; [lra|]. intros z Hz. destruct (Z.eqb_spec z j); [lia|reflexivity].
    + rewrite (IHd (l + pw d)%Z) by lia. rewrite bsum_zero; [lra|]. intros z Hz. destruct (Z.eqb_spec z j); [lia|reflexivity].
Qed.

Section B.
Variable Ob : orbit. Variable slice extra : bool. Variable w0 : Q.
Notation build := (build Ob slice extra w0).
Notation term := (term Ob extra).
Definition Wb (l : Z) (d : nat) : Q := bsum l d (wfun Ob).
Definition blo (fwd : bool) (e : Z) (d : nat) : Z := if fwd then (e + 1)%Z else (e - pw d)%Z.
Definition mk (l : Z) (d : nat) (j : Z) : sub := {| lo := l; hi := (l + pw d - 1)%Z; wgt := Wb l d; prop := j; dep := d |}.

Fixpoint valid (fwd : bool) (e : Z) (d : nat) : bool :=
  match d with
  | O => okE Ob (if fwd then e else (e - 1)%Z) && negb (dvg Ob (if fwd then (e + 1)%Z else (e - 1)%Z))
  | S d' =>
      let e2 := if fwd then (e + pw d')%Z else (e - pw d')%Z in
      let l := blo fwd e (S d') in
      valid fwd e d' && valid fwd e2 d' && negb (term l (l + pw (S d') - 1)%Z (l + pw d' - 1)%Z (S d'))
  end.
(* proposal distribution inside a freshly built block *)
Fixpoint pi (fwd : bool) (e : Z) (d : nat) (j : Z) : Q :=
  match d with
  | O => if Z.eqb j (if fwd then (e + 1)%Z else (e - 1)%Z) then 1 else 0
  | S d' =>
      let e2 := if fwd then (e + pw d')%Z else (e - pw d')%Z in
      let l := blo fwd e (S d') in
      let rho := clip (ratio slice (Wb (blo fwd e2 d') d') (Wb l d' + Wb (l + pw d')%Z d')) in
      (1 - rho) * pi fwd e d' j + rho * pi fwd e2 d' j
  end.


Lemma pi_support d : forall fwd e j, ~ (blo fwd e d <= j < blo fwd e d + pw d)%Z -> pi fwd e d j == 0.
Proof.
  induction d as [|d IH]; intros fwd e j H; cbn [pi].
  - unfold blo in H; cbn [pw] in H. destruct fwd.
    + destruct (Z.eqb_spec j (e + 1)); [lia|reflexivity].
    + destruct (Z.eqb_spec j (e - 1)); [lia|reflexivity].
  - pose proof (pw_pos d). rewrite (IH fwd e j), (IH fwd _ j); [lra| |];
    unfold blo in *; cbn [pw] in H; destruct fwd; lia.
Qed.
Lemma pi_total d : forall fwd e, bsum (blo fwd e d) d (pi fwd e d) == 1.
Proof.
  induction d as [|d IH]; intros fwd e.
  - cbn [bsum pi]. unfold blo; cbn [pw]. destruct fwd.
    + rewrite Z.eqb_refl; reflexivity.
    + replace (e - 1)%Z with (e - 1)%Z by lia. rewrite Z.eqb_refl; reflexivity.
  - pose proof (pw_pos d). cbn [bsum]. cbn [pi].
    set (rho := clip _).
    rewrite !bsum_plus, !bsum_scal.
    destruct fwd.
    + (* inner = first half, outer = second half *)
      assert (A1 : bsum (blo true e (S d)) d (pi true e d) == 1) by (apply (IH true e)).
      assert (A2 : bsum (blo true e (S d)) d (pi true (e + pw d) d) == 0).
      { apply bsum_zero; intros j Hj. apply pi_support. unfold blo in *. lia. }
      assert (A3 : bsum (blo true e (S d) + pw d) d (pi true e d) == 0).
      { apply bsum_zero; intros j Hj. apply pi_support. unfold blo in *. lia. }
      assert (A4 : bsum (blo true e (S d) + pw d) d (pi true (e + pw d) d) == 1).
      { replace (blo true e (S d) + pw d)%Z with (blo true (e + pw d) d) by (unfold blo; lia). apply IH. }
      rewrite A1, A2, A3, A4. lra.
    + assert (A1 : bsum (blo false e (S d)) d (pi false e d) == 0).
      { apply bsum_zero; intros j Hj. apply pi_support. unfold blo in *. cbn [pw] in *. lia. }
      assert (A2 : bsum (blo false e (S d)) d (pi false (e - pw d) d) == 1).
      { replace (blo false e (S d)) with (blo false (e - pw d) d) by (unfold blo; cbn [pw]; lia). apply IH. }
      assert (A3 : bsum (blo false e (S d) + pw d) d (pi false e d) == 1).
      { replace (blo false e (S d) + pw d)%Z with (blo false e d) by (unfold blo; cbn [pw]; lia). apply IH. }
      assert (A4 : bsum (blo false e (S d) + pw d) d (pi false (e - pw d) d) == 0).
      { apply bsum_zero; intros j Hj. apply pi_support. unfold blo in *. cbn [pw] in *. lia. }
      rewrite A1, A2, A3, A4. lra.
Qed.


Lemma mix_sum lA dA lB dB (a b : Z -> Q) rho (h : Z -> Q) :
  bsum lA dA a == 1 -> bsum lB dB b == 1 ->
  bsum lA dA (fun j => a j * bsum lB dB (fun j2 => b j2 * (rho * h j2 + (1 - rho) * h j)))
  == (1 - rho) * bsum lA dA (fun j => a j * h j) + rho * bsum lB dB (fun j2 => b j2 * h j2).
Proof.
  intros Ha Hb.
  rewrite (bsum_ext lA dA _ (fun j => rho * bsum lB dB (fun j2 => b j2 * h j2) * a j + (1 - rho) * (a j * h j))).
  - rewrite bsum_plus, !bsum_scal, Ha. lra.
  - intros j _.
    rewrite (bsum_ext lB dB _ (fun j2 => rho * (b j2 * h j2) + ((1 - rho) * h j) * b j2)) by (intros; lra).
    rewrite bsum_plus, !bsum_scal, Hb. lra.
Qed.

Definition stat_indep (g : option sub * stats -> Q) := forall o s s', g (o, s) == g (o, s').

Lemma build_spec d : forall e fwd st g, stat_indep g ->
  ex (build d e fwd st) g ==
  if valid fwd e d then bsum (blo fwd e d) d (fun j => pi fwd e d j * g (Some (mk (blo fwd e d) d j), st))
  else g (None, st).
Proof.
  induction d as [|d IH]; intros e fwd st g Hg.
  - cbn [Model.build valid bsum pi blo pw].
    destruct (okE Ob (if fwd then e else (e - 1)%Z)) eqn:Eok; cbn [negb andb].
    + destruct (dvg Ob (if fwd then (e + 1)%Z else (e - 1)%Z)) eqn:Ed; cbn [negb ex].
      * apply Hg.
      * destruct fwd; cbn [blo pw]; rewrite Z.eqb_refl.
        -- unfold mk, leaf, Wb. cbn [bsum pw]. replace (e + 1 + 1 - 1)%Z with (e + 1)%Z by lia. rewrite Qmult_1_l. apply Hg.
        -- unfold mk, leaf, Wb. cbn [bsum pw]. replace (e - 1 + 1 - 1)%Z with (e - 1)%Z by lia. rewrite Qmult_1_l. apply Hg.
    + cbn [ex]. apply Hg.
  - cbn [Model.build]. rewrite ex_bind.
    set (e2 := if fwd then (e + pw d)%Z else (e - pw d)%Z).
    set (l := blo fwd e (S d)).
    (* the continuation after the inner build *)
    set (K1 := fun a : option sub * stats => ex (let (o, st1) := a in match o with Some inner => _ | None => Ret (None, st1) end) g).
    assert (HK1 : stat_indep K1).
    { intros o s s'. unfold K1. destruct o as [inner|]; cbn [ex]; [|apply Hg].
      rewrite !ex_bind. rewrite !IH.
      - destruct (valid fwd (if fwd then hi inner else lo inner) d); [|apply Hg].
        apply bsum_ext; intros j Hj. apply Qmult_comp; [reflexivity|]. cbn [ex]. rewrite !(Hg _ s s'). reflexivity.
      - intros o2 s2 s2'. destruct o2; cbn [ex]; [|apply Hg]. rewrite !(Hg _ s2 s2'). reflexivity.
      - intros o2 s2 s2'. destruct o2; cbn [ex]; [|apply Hg]. rewrite !(Hg _ s2 s2'). reflexivity. }
    rewrite (IH e fwd st K1 HK1).
    cbn [valid]. fold e2. fold l.
    destruct (valid fwd e d) eqn:V1; cbn [andb]; [|unfold K1; cbn [ex]; reflexivity].
    (* inner valid: expand K1 on Some (mk ...) *)
    assert (Hin : forall j, K1 (Some (mk (blo fwd e d) d j), st) ==
       if valid fwd e2 d then
         bsum (blo fwd e2 d) d (fun j2 => pi fwd e2 d j2 *
           (let inner := mk (blo fwd e d) d j in let outer := mk (blo fwd e2 d) d j2 in
            let nl := if fwd then inner else outer in let nr := if fwd then outer else inner in
            let rho := clip (ratio slice (wgt outer) (wgt nl + wgt nr)) in
            rho * g (if termsub Ob extra (merge nl nr j2) nl nr then None else Some (merge nl nr j2), st)
            + (1 - rho) * g (if termsub Ob extra (merge nl nr j) nl nr then None else Some (merge nl nr j), st)))
       else g (None, st)).
    { intros j. unfold K1. cbn [ex]. rewrite ex_bind.
      assert (E2 : (if fwd then hi (mk (blo fwd e d) d j) else lo (mk (blo fwd e d) d j)) = e2).
      { unfold e2, mk, blo; destruct fwd; cbn [hi lo]; lia. }
      rewrite E2. rewrite IH.
      - destruct (valid fwd e2 d); [|reflexivity].
        apply bsum_ext; intros j2 Hj2. apply Qmult_comp; [reflexivity|]. cbn [ex]. reflexivity.
      - intros o2 s2 s2'. destruct o2; cbn [ex]; [|apply Hg]. rewrite !(Hg _ s2 s2'). reflexivity. }
    rewrite (bsum_ext _ _ _ _ (fun j _ => Qmult_comp _ _ (Qeq_refl _) _ _ (Hin j))).
    destruct (valid fwd e2 d) eqn:V2; cbn [andb].
    2:{ rewrite (bsum_ext _ _ _ (fun j => g (None, st) * pi fwd e d j)) by (intros; lra).
        rewrite bsum_scal, pi_total. lra. }
    pose proof (pw_pos d) as Hpw.
    destruct fwd.
    * (* forward: inner = [e+1, e+pw d], outer = [e+pw d+1, e+2 pw d] *)
      cbn [blo] in *. subst e2 l. cbn [pi blo].
      remember (term (e + 1)%Z (e + 1 + pw (S d) - 1)%Z (e + 1 + pw d - 1)%Z (S d)) as T eqn:ET0.
      set (rho := clip (ratio slice (Wb (e + pw d + 1)%Z d) (Wb (e + 1)%Z d + Wb (e + 1 + pw d)%Z d))).
      set (hh := fun (b : bool) (j : Z) => g (if b then None else Some (mk (e + 1)%Z (S d) j), st)). set (h := hh T).
      rewrite (bsum_ext _ _ _ (fun j => pi true e d j * bsum (e + pw d + 1)%Z d (fun j2 => pi true (e + pw d) d j2 * (rho * h j2 + (1 - rho) * h j)))).
      2:{ intros j _. apply Qmult_comp; [reflexivity|]. apply bsum_ext; intros j2 _. apply Qmult_comp; [reflexivity|].
          cbn zeta. unfold termsub. cbn [merge lo hi dep wgt mk].
          assert (EM : forall p, merge (mk (e + 1) d j) (mk (e + pw d + 1) d j2) p = mk (e + 1)%Z (S d) p).
          { intros p. unfold merge, mk. cbn [lo hi wgt dep]. f_equal; cbn [pw]; try lia. unfold Wb. cbn [bsum]. replace (e + 1 + pw d)%Z with (e + pw d + 1)%Z by lia. reflexivity. }
          rewrite !EM. cbn [mk lo hi dep].
          replace (e + pw d + 1 + pw d - 1)%Z with (e + 1 + pw (S d) - 1)%Z by (cbn [pw]; lia).
          rewrite <- ET0. unfold rho, h, hh. replace (e + 1 + pw d)%Z with (e + pw d + 1)%Z by lia. reflexivity. }
      rewrite (mix_sum (e + 1)%Z d (e + pw d + 1)%Z d) by (apply (pi_total d true e) || apply (pi_total d true (e + pw d))).
      clear ET0; unfold h; clear h; destruct T; cbn [negb].
      + unfold hh.
        rewrite (bsum_ext _ _ _ (fun j => g (None, st) * pi true e d j)) by (intros; lra).
        rewrite (bsum_ext (e + pw d + 1)%Z _ _ (fun j => g (None, st) * pi true (e + pw d) d j)) by (intros; lra).
        rewrite !bsum_scal. rewrite (pi_total d true e), (pi_total d true (e + pw d)). lra.
      + cbn [bsum].
        rewrite (bsum_ext (e + 1)%Z d (fun j => ((1 - rho) * pi true e d j + rho * pi true (e + pw d) d j) * _) (fun j => (1 - rho) * (pi true e d j * hh false j))).
        2:{ intros j Hj. rewrite (pi_support d true (e + pw d) j) by (unfold blo; lia). unfold hh. lra. }
        rewrite (bsum_ext (e + 1 + pw d)%Z d (fun j => ((1 - rho) * pi true e d j + rho * pi true (e + pw d) d j) * _) (fun j => rho * (pi true (e + pw d) d j * hh false j))).
        2:{ intros j Hj. rewrite (pi_support d true e j) by (unfold blo; lia). unfold hh. lra. }
        rewrite !bsum_scal. replace (e + 1 + pw d)%Z with (e + pw d + 1)%Z by lia. reflexivity.
    * (* backward: inner = [e - pw d, e-1], outer = [e - 2 pw d, e - pw d - 1] *)
      cbn [blo] in *. subst e2 l. cbn [pi blo].
      set (L := (e - pw (S d))%Z).
      remember (term L (L + pw (S d) - 1)%Z (L + pw d - 1)%Z (S d)) as T eqn:ET0.
      set (rho := clip (ratio slice (Wb (e - pw d - pw d)%Z d) (Wb L d + Wb (L + pw d)%Z d))).
      set (hh := fun (b : bool) (j : Z) => g (if b then None else Some (mk L (S d) j), st)). set (h := hh T).
      rewrite (bsum_ext _ _ _ (fun j => pi false e d j * bsum (e - pw d - pw d)%Z d (fun j2 => pi false (e - pw d) d j2 * (rho * h j2 + (1 - rho) * h j)))).
      2:{ intros j _. apply Qmult_comp; [reflexivity|]. apply bsum_ext; intros j2 _. apply Qmult_comp; [reflexivity|].
          cbn zeta. unfold termsub. cbn [merge lo hi dep wgt mk].
          assert (EL : (e - pw d - pw d)%Z = L) by (unfold L; cbn [pw]; lia).
          assert (EM : forall p, merge (mk (e - pw d - pw d) d j2) (mk (e - pw d) d j) p = mk L (S d) p).
          { intros p. unfold merge, mk. cbn [lo hi wgt dep]. rewrite EL. f_equal; cbn [pw]; try (unfold L; cbn [pw]; lia). unfold Wb. cbn [bsum]. replace (L + pw d)%Z with (e - pw d)%Z by (unfold L; cbn [pw]; lia). reflexivity. }
          rewrite !EM. cbn [mk lo hi dep].
          replace (e - pw d + pw d - 1)%Z with (L + pw (S d) - 1)%Z by (unfold L; cbn [pw]; lia).
          replace (e - pw d - pw d + pw d - 1)%Z with (L + pw d - 1)%Z by (unfold L; cbn [pw]; lia).
          rewrite ?EL. rewrite <- ET0. unfold rho, h, hh. rewrite ?EL. replace (L + pw d)%Z with (e - pw d)%Z by (unfold L; cbn [pw]; lia). reflexivity. }
      rewrite (mix_sum (e - pw d)%Z d (e - pw d - pw d)%Z d) by (apply (pi_total d false e) || apply (pi_total d false (e - pw d))).
      assert (EL : (e - pw d - pw d)%Z = L) by (unfold L; cbn [pw]; lia).
      clear ET0; unfold h; clear h; destruct T; cbn [negb].
      + unfold hh.
        rewrite (bsum_ext _ _ _ (fun j => g (None, st) * pi false e d j)) by (intros; lra).
        rewrite (bsum_ext (e - pw d - pw d)%Z _ _ (fun j => g (None, st) * pi false (e - pw d) d j)) by (intros; lra).
        rewrite !bsum_scal. rewrite (pi_total d false e), (pi_total d false (e - pw d)). lra.
      + cbn [bsum].
        rewrite (bsum_ext L d (fun j => ((1 - rho) * pi false e d j + rho * pi false (e - pw d) d j) * _) (fun j => rho * (pi false (e - pw d) d j * hh false j))).
        2:{ intros j Hj. rewrite (pi_support d false e j) by (unfold blo, L in *; cbn [pw] in *; lia). unfold hh. lra. }
        rewrite (bsum_ext (L + pw d)%Z d (fun j => ((1 - rho) * pi false e d j + rho * pi false (e - pw d) d j) * _) (fun j => (1 - rho) * (pi false e d j * hh false j))).
        2:{ intros j Hj. rewrite (pi_support d false (e - pw d) j) by (unfold blo, L in *; cbn [pw] in *; lia). unfold hh. lra. }
        rewrite !bsum_scal. rewrite EL. replace (L + pw d)%Z with (e - pw d)%Z by (unfold L; cbn [pw]; lia). lra.
Qed.

End B.
