(* Hand model of the state-level cache of src/mici/states.py: ChainState (variables, cache, shared dependency
   table, read-only flag), the two memoising decorators (registration of a key under the declared variables when the key
   is absent from the state's cache, evaluation when absent or invalidated, filling of auxiliary outputs), assignment
   (invalidates every key registered under the variable in the dependency table the state shares with its copies),
   copy (shallow cache copy, shared dependency table) and pickling (new dependency table, callable entries dropped).
   Tied to the code by the correspondence check tie/c09.py (random histories on real ChainState objects with real
   decorators) and, for the declared dependencies of the real system classes, by translator T4 (Gen/DepsGen.v). *)
From Coq Require Import List Bool Arith Lia.
Import ListNotations.

Definition var := nat.
Definition key := nat.
Definition upd {A} (f : nat -> A) (i : nat) (a : A) : nat -> A := fun j => if Nat.eqb j i then a else f j.
Lemma upd_same {A} (f : nat -> A) i a : upd f i a i = a. Proof. unfold upd; rewrite Nat.eqb_refl; auto. Qed.
Lemma upd_other {A} (f : nat -> A) i j a : j <> i -> upd f i a j = f j.
Proof. intros H; unfold upd. destruct (Nat.eqb_spec j i); congruence. Qed.
Definition memb (x : var) (l : list var) : bool := existsb (Nat.eqb x) l.
Lemma memb_In x l : memb x l = true <-> In x l.
Proof. unfold memb. rewrite existsb_exists. split. intros [y [H E]]. apply Nat.eqb_eq in E; subst; auto. intros H; exists x; split; auto; apply Nat.eqb_refl. Qed.

Section C.
Variable V R : Type.
Variable decl reads : key -> list var.
Variable aux : key -> list key.
Variable eval : key -> (var -> V) -> R.
Variable droppable : key -> bool.

Inductive entry := Absent | Inval | Val (r : R).
Record state := { vars : var -> V; cache : key -> entry; grp : nat; ro : bool }.
Record heap := { sts : nat -> option state; nst : nat; deps : nat -> var -> key -> bool; ngrp : nat }.

Definition register (d : nat -> var -> key -> bool) (g : nat) (dl : list var) (k : key) : nat -> var -> key -> bool :=
  fun g' x k' => if (Nat.eqb g' g && memb x dl && Nat.eqb k' k)%bool then true else d g' x k'.
Definition reg_keys (s : state) (m : key) (ks : list key) (d : nat -> var -> key -> bool) :=
  fold_left (fun d k => match cache s k with Absent => register d (grp s) (decl m) k | _ => d end) ks d.

Inductive op :=
| Assign (i : nat) (x : var) (v : V)
| Copy (i : nat) (readonly : bool)
| Pickle (i : nat)
| Call (i : nat) (m : key) (with_aux : bool).

Definition fill_aux (s : state) (m : key) (c : key -> entry) : key -> entry :=
  fold_left (fun c a => upd c a (Val (eval a (vars s)))) (aux m) c.

Definition step (h : heap) (o : op) : heap * option R :=
  match o with
  | Assign i x v =>
      match sts h i with
      | Some s => if ro s then (h, None) else
          let s' := {| vars := upd (vars s) x v;
                       cache := fun k => if deps h (grp s) x k then Inval else cache s k;
                       grp := grp s; ro := ro s |} in
          ({| sts := upd (sts h) i (Some s'); nst := nst h; deps := deps h; ngrp := ngrp h |}, None)
      | None => (h, None) end
  | Copy i r =>
      match sts h i with
      | Some s => ({| sts := upd (sts h) (nst h) (Some {| vars := vars s; cache := cache s; grp := grp s; ro := r |});
                      nst := S (nst h); deps := deps h; ngrp := ngrp h |}, None)
      | None => (h, None) end
  | Pickle i =>
      match sts h i with
      | Some s =>
          let g := ngrp h in
          ({| sts := upd (sts h) (nst h) (Some {| vars := vars s;
                        cache := fun k => match cache s k with Val r => if droppable k then Absent else Val r | e => e end;
                        grp := g; ro := ro s |});
              nst := S (nst h);
              deps := fun g' x k => if Nat.eqb g' g then deps h (grp s) x k else deps h g' x k; ngrp := S g |}, None)
      | None => (h, None) end
  | Call i m wa =>
      match sts h i with
      | Some s =>
          let d' := reg_keys s m (m :: aux m) (deps h) in
          match cache s m with
          | Val r => ({| sts := sts h; nst := nst h; deps := d'; ngrp := ngrp h |}, Some r)
          | _ =>
              let r := eval m (vars s) in
              let c1 := upd (cache s) m (Val r) in
              let c2 := if wa then fill_aux s m c1 else c1 in
              ({| sts := upd (sts h) i (Some {| vars := vars s; cache := c2; grp := grp s; ro := ro s |});
                  nst := nst h; deps := d'; ngrp := ngrp h |}, Some r)
          end
      | None => (h, None) end
  end.


(* does this call evaluate the underlying method (i.e. the user's model functions)? *)
Definition call_evaluates (h : heap) (i : nat) (m : key) : bool :=
  match sts h i with Some s => match cache s m with Val _ => false | _ => true end | None => false end.
Fixpoint runs (h : heap) (ops : list op) : heap := match ops with [] => h | o :: r => runs (fst (step h o)) r end.
(* observable trace of a history: for every Call its returned value and whether it evaluated *)
Fixpoint trace (h : heap) (ops : list op) : list (option (R * bool)) :=
  match ops with
  | [] => []
  | o :: r =>
      let out := match o with
                 | Call i m _ => match snd (step h o) with Some v => Some (v, call_evaluates h i m) | None => None end
                 | _ => None end in
      out :: trace (fst (step h o)) r
  end.
Definition heap0 (v0 : var -> V) : heap :=
  {| sts := fun i => if Nat.eqb i 0 then Some {| vars := v0; cache := fun _ => Absent; grp := 0; ro := false |} else None;
     nst := 1; deps := fun _ _ _ => false; ngrp := 1 |}.
End C.
