(* Concrete rational instances of Model/Projection.v for the correspondence check of C04:
   plain constrained Euclidean-metric system (h2 flow: pos += dt M^-1 mom), quadratic potential, polynomial constraints. *)
From Coq Require Import QArith Qabs Qminmax Qround List Bool.
Require Import Mici.Lib.QMat Mici.Model.Matrices Mici.Model.Projection.
Import ListNotations.
Open Scope Q_scope.

Definition vmax (n : nat) (A : mat) : Q := fold_left (fun m i => Qmax m (Qabs (A i 0%nat))) (seq 0 n) 0.
Definition col (l : list Q) : mat := fun i j => if Nat.eqb j 0 then nth i l 0 else 0.
Definition sumsq (d : nat) (q : mat) : Q := sumn d (fun i => q i 0%nat * q i 0%nat).

(* kind 0: sphere  |q|^2 - r  (k = 1);   kind 1: sphere and  q0 + q1^2 / 2 - 3 q3 / 10 - b  (k = 2, d >= 4) *)
Definition cfun (kind d : nat) (r b : Q) (q : mat) : mat :=
  match kind with
  | O => col [sumsq d q - r]
  | _ => col [sumsq d q - r; q 0%nat 0%nat + (1 # 2) * q 1%nat 0%nat * q 1%nat 0%nat - (3 # 10) * q 3%nat 0%nat - b]
  end.
Definition jfun (kind d : nat) (q : mat) : mat :=
  fun i j => if Nat.ltb j d then
    match kind, i with
    | _, O => 2 * q j 0%nat
    | S _, S O => match j with O => 1 | S O => q 1%nat 0%nat | S (S (S O)) => - (3 # 10) | _ => 0 end
    | _, _ => 0
    end else 0.
Definition inv_small (k : nat) (A : mat) : mat :=
  match k with
  | S O => fun i j => if (Nat.eqb i 0 && Nat.eqb j 0)%bool then / A 0%nat 0%nat else 0
  | _ => let a := A 0%nat 0%nat in let b := A 0%nat 1%nat in let c := A 1%nat 0%nat in let e := A 1%nat 1%nat in
         let det := a * e - b * c in
         of_list [[e / det; - b / det]; [- c / det; a / det]]
  end.

(* Rounding to a multiple of 2^-120.  It is applied ONLY inside the functions that the theorems of Props/C04.v quantify over
   (constraint function, the solvers' linear solve, h1 kick, h2 flow) -- so the rounded instance is still an instance of the
   proved model -- and keeps the exact rationals of a whole step at a few hundred bits.  (The implementation rounds to 2^-53.) *)
Definition PREC : Z := Z.pow 2 120.
Definition qround (x : Q) : Q := Qmake (Qfloor (x * inject_Z PREC)) (Z.to_pos PREC).
Definition rnd (n m : nat) (A : mat) : mat := of_list (map (fun i => map (fun j => qround (A i j)) (seq 0 m)) (seq 0 n)).

Section I.
Variables (kind d k : nat) (r b : Q).
Variable Mi : mat.            (* inverse metric (from of_list: zero outside d x d) *)
Variable S : mat.             (* Hessian of the potential *)
Variable mu0 : mat.           (* its centre *)
Definition c_ (q : mat) : mat := rnd k 1 (cfun kind d r b q).
Definition jac_ := jfun kind d.
Definition nrm (A : mat) : Q := vmax (Nat.max d k) A.
Definition ginv_ (q : mat) : mat := inv_small k (fz k k (mmul d (jac_ q) (mmul d Mi (mtr (jac_ q))))).
Definition kick_ (dt : Q) (q p : mat) : mat := rnd d 1 (msub p (mscal dt (mmul d S (msub q mu0)))).
Definition flow_ (dt : Q) (q p : mat) : mat * mat := (rnd d 1 (madd q (mscal dt (mmul d Mi p))), rnd d 1 p).
Definition invr (A : mat) : mat := rnd k k (inv_small k A).
Definition dflow_ (a : Q) : mat * mat := (mscal a Mi, fun i j => if (Nat.eqb i j && Nat.ltb i d)%bool then 1 else 0).

Definition out_state (o : option (mat * mat * nat)) : option (list (list (Z * Z)) * list (list (Z * Z)) * nat) :=
  match o with Some (q, p, i) => Some (to_list d 1 q, to_list d 1 p, i) | None => None end.

(* direct solver call on the post-h2_flow state *)
Definition run_solver (sh : shape) (ctol ptol dtol : Q) (max_ls max_iters : nat) (dt : Q) (qprev pprev : list Q) :=
  out_state (retract d k c_ nrm jac_ invr flow_ dflow_ ctol ptol dtol max_ls max_iters sh dt (col qprev) (col pprev) (col qprev)).

(* a whole integrator step *)
Definition run_step (sh : shape) (pexp : mexp) (ops : list cop) (ctol ptol dtol rtol : Q) (max_ls max_iters : nat) (t dt : Q) (q p : list Q) :=
  match cexec d k c_ nrm nrm jac_ Mi ginv_ invr kick_ flow_ dflow_ ctol ptol dtol rtol max_ls max_iters sh pexp t dt ops
              {| pos := col q; mom := col p; ppos := col q; pmom := col p |} with
  | Some s => Some (to_list d 1 (pos s), to_list d 1 (mom s))
  | None => None
  end.
(* the projection alone *)
Definition run_proj (pexp : mexp) (q p : list Q) := to_list d 1 (proj_mom d k jac_ Mi ginv_ pexp (col q) (col p)).
End I.
