(* Hand model of the sampler bookkeeping in src/mici/samplers.py (sequential mode):
   sample_chains' stage loop, _sample_chains_sequential, _sample_chain, _finalize_adapters,
   with a keyboard interrupt raised by the k-th call of a user callback (transition.sample or a
   trace function).  Tied to the code by tie/corr_sampler.py (same stage lists, chains, interrupt
   points run through the real sample_chains with recording stub transition/adapters).

   The run is a fold over the flat list of tasks the loop nest performs; an interrupt stops everything
   that follows (after the fix "return partial results on interrupt before finalizing adapters"). *)
From Coq Require Import ZArith List Bool Arith Lia.
Require Import Mici.Model.Stagers.
Import ListNotations.

Section Sampler.
  Variables St Rng Par Ast Stat V : Type.
  (* adapter.initialize for the adapters active in a stage (may set a parameter, e.g. initial step size) *)
  Variable init_ad : adapters -> Par -> St -> Ast * Par.
  (* one iteration: every transition.sample followed by the updates of the active adapters *)
  Variable iter_fn : adapters -> Par -> Ast -> St -> Rng -> St * Stat * Rng * Ast * Par.
  (* _finalize_adapters: sets parameters from all chains' adapter states; may refresh chain momenta *)
  Variable fin_ad : adapters -> Par -> list Ast -> list (St * Rng) -> Par * list (St * Rng).
  Variable tr : St -> V.
  Variable ast0 : Ast.

  Inductive task :=
  | TInit (a : adapters) (c : nat)
  | TIter (a : adapters) (c : nat) (row : nat) (traced stats : bool)
  | TFin (a : adapters).

  Definition upd {A} (f : nat -> A) (i : nat) (a : A) : nat -> A := fun j => if Nat.eqb j i then a else f j.

  Record world := {
    w_chain : nat -> St * Rng;            (* current state and generator of every chain *)
    w_ast : nat -> Ast;                   (* adapter state of every chain in the current stage *)
    w_par : Par;                          (* transition parameters (shared by all chains in one process) *)
    w_tr : nat -> nat -> option V;        (* trace arrays: chain, row; None = fill value *)
    w_st : nat -> nat -> option Stat;     (* statistics arrays *)
    w_hist : nat -> list (St * Stat);     (* ghost: completed recorded iterations of every chain *)
    w_k : nat;                            (* callback calls made so far *)
    w_stop : bool;                        (* an interrupt has been raised *)
    w_ran : list nat;                     (* chains started in the current stage (for the returned states) *)
    w_parlog : list (adapters * Par)      (* ghost: parameters seen by every transition.sample call *)
  }.

  Definition set_chain w c x := {| w_chain := upd (w_chain w) c x; w_ast := w_ast w; w_par := w_par w; w_tr := w_tr w;
    w_st := w_st w; w_hist := w_hist w; w_k := w_k w; w_stop := w_stop w; w_ran := w_ran w; w_parlog := w_parlog w |}.

  Variable nchain : nat.
  Variable intr : option nat.
  Definition raises (k : nat) : bool := match intr with Some j => Nat.eqb j k | None => false end.

  Definition step (w : world) (t : task) : world :=
    if w_stop w then w else
    match t with
    | TInit a c =>
        (* adapter.initialize may call user model functions (initial step size search): one callback call when adapters
           are active; an interrupt raised there is handled like one raised in an iteration (fix "handle keyboard interrupt
           raised while initialising adapters"): the chain returns its unchanged state *)
        let calls := match a with NoAd => false | _ => true end in
        if calls && raises (w_k w) then
          {| w_chain := w_chain w; w_ast := w_ast w; w_par := w_par w; w_tr := w_tr w; w_st := w_st w; w_hist := w_hist w;
             w_k := S (w_k w); w_stop := true; w_ran := w_ran w ++ [c]; w_parlog := w_parlog w |}
        else
        let '(ast, p) := match a with NoAd => (ast0, w_par w) | _ => init_ad a (w_par w) (fst (w_chain w c)) end in
        {| w_chain := w_chain w; w_ast := upd (w_ast w) c ast; w_par := p; w_tr := w_tr w; w_st := w_st w; w_hist := w_hist w;
           w_k := if calls then S (w_k w) else w_k w; w_stop := false; w_ran := w_ran w ++ [c]; w_parlog := w_parlog w |}
    | TIter a c row traced stats =>
        if raises (w_k w) then    (* KeyboardInterrupt inside transition.sample: nothing of this iteration happened *)
          {| w_chain := w_chain w; w_ast := w_ast w; w_par := w_par w; w_tr := w_tr w; w_st := w_st w; w_hist := w_hist w;
             w_k := S (w_k w); w_stop := true; w_ran := w_ran w; w_parlog := w_parlog w |}
        else
          let '(s, r) := w_chain w c in
          let '(s', stat, r', ast', p') := iter_fn a (w_par w) (w_ast w c) s r in
          let k1 := S (w_k w) in
          let st' := if stats then upd (w_st w) c (upd (w_st w c) row (Some stat)) else w_st w in
          let plog := w_parlog w ++ [(a, w_par w)] in
          if traced && raises k1 then  (* interrupt inside the trace function: state advanced, statistics row written, trace row not *)
            {| w_chain := upd (w_chain w) c (s', r'); w_ast := upd (w_ast w) c ast'; w_par := p'; w_tr := w_tr w; w_st := st';
               w_hist := w_hist w; w_k := S k1; w_stop := true; w_ran := w_ran w; w_parlog := plog |}
          else
            {| w_chain := upd (w_chain w) c (s', r'); w_ast := upd (w_ast w) c ast'; w_par := p';
               w_tr := if traced then upd (w_tr w) c (upd (w_tr w c) row (Some (tr s'))) else w_tr w; w_st := st';
               w_hist := if stats then upd (w_hist w) c (w_hist w c ++ [(s', stat)]) else w_hist w;
               w_k := if traced then S k1 else k1; w_stop := false; w_ran := w_ran w; w_parlog := plog |}
    | TFin a =>
        let cs := seq 0 nchain in
        let '(p, chains) := match a with NoAd => (w_par w, map (w_chain w) cs)
                            | _ => fin_ad a (w_par w) (map (w_ast w) cs) (map (w_chain w) cs) end in
        {| w_chain := fun c => nth c chains (w_chain w c); w_ast := w_ast w; w_par := p; w_tr := w_tr w; w_st := w_st w;
           w_hist := w_hist w; w_k := w_k w; w_stop := false; w_ran := []; w_parlog := w_parlog w |}
    end.

  (* the tasks of one stage starting at row offset off; the stage loop skips stages without iterations *)
  Definition stage_tasks (off : nat) (s : stage) : list task :=
    let n := Z.to_nat (n_iter s) in
    if Nat.eqb n 0 then [] else
    flat_map (fun c => TInit (ads s) c :: map (fun i => TIter (ads s) c (off + i) (traced s) (stats s)) (seq 0 n)) (seq 0 nchain)
    ++ [TFin (ads s)].
  Definition next_off (off : nat) (s : stage) : nat :=
    if traced s || stats s then off + Z.to_nat (n_iter s) else off.
  Fixpoint run_tasks (off : nat) (l : list stage) : list task :=
    match l with [] => [] | s :: l => stage_tasks off s ++ run_tasks (next_off off s) l end.

  Definition run (l : list stage) (w0 : world) : world := fold_left step (run_tasks 0 l) w0.

  (* what sample_chains returns as final states: all chains after a completed run, the chains started in the
     interrupted stage after an interrupt *)
  Definition final_states (w : world) : list St :=
    map (fun c => fst (w_chain w c)) (if w_stop w then w_ran w else seq 0 nchain).
End Sampler.

