(* Symbolic model of the Hamiltonian interface of src/mici/systems.py.
   Scalar fields are Q-linear combinations of uninterpreted scalar atoms, gradient-valued expressions Q-linear
   combinations of gradient atoms; Dq / Dp are the linear maps fixed on atoms by the calculus facts.  Because atoms are
   uninterpreted, an identity between combinations holds under EVERY interpretation of the user functions and metric.
   Method bodies and the class hierarchy are regenerated from the source by translator T4 (Gen/SystemsGen.v); which body a
   class uses is resolved here along the generated MRO. *)
From Coq Require Import QArith List String Bool.
Import ListNotations.
Open Scope Q_scope.

Inductive atom :=
| aL      (* neg_log_dens(q)                       -- user function *)
| aK      (* 1/2 p^T M^-1 p, constant metric M *)
| aKR     (* 1/2 p^T M(q)^-1 p, position dependent metric *)
| aG      (* 1/2 q^T q *)
| aLD     (* 1/2 log|det M(q)| *)
| aGR     (* 1/2 log|det Gram(q)|, Gram = J M^-1 J^T *)
| gL      (* grad_neg_log_dens(q)                  -- user function, assumed to be the gradient of aL *)
| gQ      (* q *)
| gLD     (* 1/2 vjp_metric(grad_log_abs_det)      -- chain rule through the metric's log-det gradient (C11) *)
| gQF     (* 1/2 vjp_metric(grad_quadratic_form_inv(p)) *)
| gGR     (* mhp_constr(Gram^-1 J M^-1)            -- chain rule through the matrix-Hessian product *)
| pV      (* M^-1 p *)
| pVR.    (* M(q)^-1 p *)
Definition atoms := [aL; aK; aKR; aG; aLD; aGR; gL; gQ; gLD; gQF; gGR; pV; pVR].
Definition atom_eqb (a b : atom) : bool :=
  match a, b with
  | aL,aL | aK,aK | aKR,aKR | aG,aG | aLD,aLD | aGR,aGR | gL,gL | gQ,gQ | gLD,gLD | gQF,gQF | gGR,gGR | pV,pV | pVR,pVR => true
  | _, _ => false end.

Definition comb := atom -> Q.
Definition c0 : comb := fun _ => 0.
Definition at1 (b : atom) : comb := fun a => if atom_eqb a b then 1 else 0.
Definition cadd (x y : comb) : comb := fun a => x a + y a.
Definition cscale (c : Q) (x : comb) : comb := fun a => c * x a.
Definition ceqb (x y : comb) : bool := forallb (fun a => Qeq_bool (x a) (y a)) atoms.
Definition ceq (x y : comb) : Prop := forall a, x a == y a.

(* the calculus facts *)
Definition Dq (x : comb) : comb := fun a =>
  match a with gL => x aL | gQ => x aG | gLD => x aLD | gQF => x aKR | gGR => x aGR | _ => 0 end.
Definition Dp (x : comb) : comb := fun a => match a with pV => x aK | pVR => x aKR | _ => 0 end.
(* 1/2 p . v for v a combination of momentum-gradient atoms: 1/2 p.(M^-1 p) is the kinetic energy *)
Definition half_mom_dot (x : comb) : comb := fun a => match a with aK => x pV | aKR => x pVR | _ => 0 end.

Inductive expr :=
| At (a : atom) | Zero
| Call (m : string)                   (* self.m(state) *)
| Add (x y : expr)
| HalfMomDot (x : expr)               (* 0.5 * state.mom @ x *)
| IfHausdorff (t e : expr).           (* if self.dens_wrt_hausdorff: t else: e *)

Section Eval.
  Variable mro : list (string * list string).
  Variable bodies : list (string * string * expr).       (* (class, method, body) *)
  Variable hausdorff : bool.
  Fixpoint lookup_body (c m : string) (l : list (string * string * expr)) : option expr :=
    match l with
    | [] => None
    | (c', m', e) :: r => if String.eqb c c' && String.eqb m m' then Some e else lookup_body c m r
    end.
  Fixpoint resolve (l : list string) (m : string) : option expr :=
    match l with [] => None | c :: r => match lookup_body c m bodies with Some e => Some e | None => resolve r m end end.
  Definition mro_of (c : string) : list string :=
    match find (fun p => String.eqb (fst p) c) mro with Some p => snd p | None => [] end.
  (* None: unresolved method or out of fuel *)
  Fixpoint eval (fuel : nat) (c : string) (e : expr) : option comb :=
    match fuel with O => None | S f =>
      match e with
      | At a => Some (at1 a) | Zero => Some c0
      | Add x y => match eval f c x, eval f c y with Some a, Some b => Some (cadd a b) | _, _ => None end
      | HalfMomDot x => option_map half_mom_dot (eval f c x)
      | IfHausdorff t e => if hausdorff then eval f c t else eval f c e
      | Call m => match resolve (mro_of c) m with Some e' => eval f c e' | None => None end
      end end.
  Definition val (c m : string) : option comb := eval 12 c (Call m).

  Definition oeqb (x y : option comb) : bool := match x, y with Some a, Some b => ceqb a b | _, _ => false end.
  Definition omap (f : comb -> comb) (x : option comb) := option_map f x.
  Definition oadd (x y : option comb) := match x, y with Some a, Some b => Some (cadd a b) | _, _ => None end.
  (* the consistency conditions of property C05 for one class *)
  Definition class_consistent (c : string) : bool :=
       oeqb (val c "h") (oadd (val c "h1") (val c "h2"))
    && oeqb (val c "dh1_dpos") (omap Dq (val c "h1"))
    && oeqb (val c "dh2_dpos") (omap Dq (val c "h2"))
    && oeqb (val c "dh2_dmom") (omap Dp (val c "h2"))
    && oeqb (val c "dh_dpos") (omap Dq (val c "h"))
    && oeqb (val c "dh_dmom") (omap Dp (val c "h"))
    && oeqb (val c "dh_dpos") (oadd (val c "dh1_dpos") (val c "dh2_dpos"))
    && oeqb (omap Dp (val c "h1")) (Some c0).
End Eval.

(* interpretation of a combination under any valuation of the atoms; linear, so equal combinations have equal value *)
Definition interp (rho : atom -> Q) (x : comb) : Q := fold_right (fun a acc => x a * rho a + acc) 0 atoms.
Lemma ceqb_ceq x y : ceqb x y = true -> ceq x y.
Proof.
  unfold ceqb. rewrite forallb_forall. intros H a. apply Qeq_bool_eq, H. destruct a; cbn; tauto.
Qed.
Lemma interp_ext rho x y : ceq x y -> interp rho x == interp rho y.
Proof. intros H. unfold interp. induction atoms as [|a l IH]; cbn; [reflexivity|]. rewrite IH, (H a). reflexivity. Qed.
