(* Executable model of the three manifold-projection solvers of src/mici/solvers.py
   (solve_projection_onto_manifold_{quasi_newton,newton,newton_with_line_search}).

   The loop layout is fixed here; everything the property depends on and that an edit can realistically change -- which
   quantity is compared with which tolerance, the operator and sign in the position increment, the coefficient applied to the
   multiplier increment, the operator and sign of the final momentum correction, the re-synchronisation after a failed
   backtracking search -- is a field of [shape], and the shapes of the three real solvers are GENERATED from the source by
   translator T7 (tie/translate_projection.py -> Gen/ProjectionGen.v).  Vectors are d x 1 / k x 1 rational matrices.   *)
From Coq Require Import QArith Qabs List Bool.
Require Import Mici.Lib.QMat Mici.Model.Matrices.
Import ListNotations.
Open Scope Q_scope.

Inductive qty := QErr | QNormDpos | QNormStepDpos.
Inductive tolv := TCon | TPos | TDiv.
Inductive lin := LDpos | LDmom | LId.
Record shape := {
  sh_quasi : bool;              (* the linear solve uses the Jacobian at the previous state, factorised once (quasi-Newton) *)
  sh_ls : bool;                 (* line-search layout: convergence test before the update, backtracking inner loop *)
  sh_conv_a : qty * tolv;       (* first conjunct of the convergence test:  qty < tol *)
  sh_conv_b : qty * tolv;       (* second conjunct *)
  sh_first_free : bool;         (* second conjunct waived on iteration 0 (i == 0 or ...) *)
  sh_div_skip0 : bool;          (* divergence test skipped on iteration 0 (i > 0 and ...) *)
  sh_div : qty * tolv;          (* divergence test: qty > tol *)
  sh_dpos_lin : lin;            (* delta_pos = [-] L @ delta_mu *)
  sh_dpos_neg : bool;
  sh_pos_sub : bool;            (* state.pos -= delta_pos  (true)   /   state.pos = pos_curr + step * delta_pos (false) *)
  sh_mu_step : bool;            (* mu += step_size * delta_mu  (true)   /   mu += delta_mu (false) *)
  sh_resync : bool;             (* for ... else: state.pos = pos_curr + step_size * delta_pos after an exhausted search *)
  sh_shrink : Q;                (* step_size *= shrink *)
  sh_mom_lin : lin;             (* state.mom -=/+= [sign(time_step) *] L @ mu *)
  sh_mom_sub : bool;
  sh_mom_sign : bool
}.

(* memoising identity on n x m matrices: under vm_compute the table is built once *)
Definition fz (n m : nat) (A : mat) : mat := of_list (map (fun i => map (fun j => Qred (A i j)) (seq 0 m)) (seq 0 n)).

Section S.
Variables d k : nat.
Variable c : mat -> mat.                 (* constraint function: position d x 1 -> k x 1 *)
Variable norm : mat -> Q.
Variables Jp Dpos Dmom : mat.            (* jacob_constr_prev (k x d), dh2_flow_pos_dmom, dh2_flow_mom_dmom (d x d) *)
Variable gsolve : mat -> mat -> mat.     (* position, residual |-> (J(pos) Dpos Jp^T)^-1 residual  (quasi-Newton ignores the position) *)
Variables ctol ptol dtol sgn : Q.        (* tolerances; sign(time_step) *)
Variable max_ls : nat.
Variable sh : shape.

Definition linop (l : lin) : mat := match l with LDpos => Dpos | LDmom => Dmom | LId => mI end.
Definition tol (t : tolv) : Q := match t with TCon => ctol | TPos => ptol | TDiv => dtol end.
Definition qval (q : qty) (err : Q) (dpos sdpos : mat) : Q :=
  match q with QErr => err | QNormDpos => norm dpos | QNormStepDpos => norm sdpos end.
Definition ltb (a b : Q) : bool := match a ?= b with Lt => true | _ => false end.
Definition sgnb (b : bool) : Q := if b then -1 else 1.
Definition cmp (t : qty * tolv) err dpos sdpos : bool := ltb (qval (fst t) err dpos sdpos) (tol (snd t)).
Definition conv (first : bool) err dpos sdpos : bool :=
  cmp (sh_conv_a sh) err dpos sdpos && ((sh_first_free sh && first) || cmp (sh_conv_b sh) err dpos sdpos).
Definition diverged (first : bool) err dpos sdpos : bool :=
  negb (sh_div_skip0 sh && first) && ltb (tol (snd (sh_div sh))) (qval (fst (sh_div sh)) err dpos sdpos).
Definition dmu_of (pos con : mat) : mat := fz d 1 (mmul k (mtr Jp) (fz k 1 (gsolve pos con))).
Definition dpos_of (dmu : mat) : mat := fz d 1 (mscal (sgnb (sh_dpos_neg sh)) (mmul d (linop (sh_dpos_lin sh)) dmu)).
Definition finish (mom0 mu : mat) : mat :=
  fz d 1 (madd mom0 (mscal (sgnb (sh_mom_sub sh) * (if sh_mom_sign sh then sgn else 1)) (mmul d (linop (sh_mom_lin sh)) mu))).

(* result: Some (pos, mom, iteration index at return) or None = ConvergenceError *)
Fixpoint nloop (fuel : nat) (i : nat) (pos mu mom0 : mat) : option (mat * mat * nat) :=
  match fuel with
  | O => None
  | S f =>
      let con := c pos in let err := norm con in
      let dmu := dmu_of pos con in let dpos := dpos_of dmu in
      if diverged (Nat.eqb i 0) err dpos dpos then None
      else if conv (Nat.eqb i 0) err dpos dpos then Some (pos, finish mom0 mu, i)
      else nloop f (S i) (fz d 1 (madd pos (mscal (sgnb (sh_pos_sub sh)) dpos))) (fz d 1 (madd mu dmu)) mom0
  end.

Fixpoint backtrack (tries : nat) (pos_curr dpos : mat) (err step : Q) (last : mat) : mat * Q :=
  match tries with
  | O => (if sh_resync sh then fz d 1 (madd pos_curr (mscal step dpos)) else last, step)
  | S t => let p := fz d 1 (madd pos_curr (mscal step dpos)) in
           if ltb (norm (c p)) err then (p, step) else backtrack t pos_curr dpos err (step * sh_shrink sh) p
  end.

Fixpoint lsloop (fuel : nat) (i : nat) (pos mu mom0 : mat) (dpos_prev sdpos_prev : mat) : option (mat * mat * nat) :=
  match fuel with
  | O => None
  | S f =>
      let con := c pos in let err := norm con in
      if diverged (Nat.eqb i 0) err dpos_prev sdpos_prev then None
      else if conv (Nat.eqb i 0) err dpos_prev sdpos_prev then Some (pos, finish mom0 mu, i)
      else
        let dmu := dmu_of pos con in let dpos := dpos_of dmu in
        let '(p, step) := backtrack max_ls pos dpos err 1 pos in
        lsloop f (S i) p (fz d 1 (madd mu (mscal (if sh_mu_step sh then step else 1) dmu))) mom0 dpos (mscal step dpos)
  end.

Definition solve (max_iters : nat) (pos mom : mat) : option (mat * mat * nat) :=
  if sh_ls sh then lsloop max_iters 0 pos m0 mom m0 m0 else nloop max_iters 0 pos m0 mom.

(* what the property needs of a shape *)
Definition is_err_con (t : qty * tolv) : bool := match t with (QErr, TCon) => true | _ => false end.
Definition lin_eqb (a b : lin) : bool := match a, b with LDpos, LDpos | LDmom, LDmom | LId, LId => true | _, _ => false end.
Definition shape_ok : bool :=
  is_err_con (sh_conv_a sh)
  && lin_eqb (sh_dpos_lin sh) LDpos && lin_eqb (sh_mom_lin sh) LDmom && sh_mom_sub sh && sh_mom_sign sh
  && (if sh_ls sh then sh_dpos_neg sh && negb (sh_pos_sub sh) && sh_mu_step sh && sh_resync sh
      else xorb (sh_dpos_neg sh) (sh_pos_sub sh) && negb (sh_mu_step sh)).
End S.

(* ---------- one step of ConstrainedLeapfrogIntegrator ---------- *)
Inductive cop :=
  | CKick (f : Q)      (* system.h1_flow(state, f * time_step) *)
  | CProj              (* state.mom = system.project_onto_cotangent_space(state.mom, state) *)
  | CCopy              (* state_prev = state.copy() *)
  | CFlowSolve         (* system.h2_flow(state, dt); projection_solver(state, state_prev, dt, system)   with dt = time_step / n_inner_step *)
  | CRevCheck          (* state_back = state.copy(); the same with (state_back, state, -dt); NonReversibleStepError if too far from state_prev *)
  | CNote.             (* statement without effect on the state (cache warm-up) *)

Record cst := { pos : mat; mom : mat; ppos : mat; pmom : mat }.

(* matrix expressions: the body of ConstrainedEuclideanMetricSystem.project_onto_cotangent_space is generated in this form *)
Inductive dimv := Dd | Dk.
Inductive mexp :=
  | EJ | EGi | EMi | EMom                         (* jacob_constr(state), inv_gram(state), metric.inv, mom *)
  | ET (a : mexp) | EMul (inner : dimv) (a b : mexp) | ESub (a b : mexp) | EAdd (a b : mexp).
Fixpoint meval (d k : nat) (J Gi Mi p : mat) (e : mexp) : mat :=
  match e with
  | EJ => J | EGi => Gi | EMi => Mi | EMom => p
  | ET a => mtr (meval d k J Gi Mi p a)
  | EMul i a b => mmul (match i with Dd => d | Dk => k end) (meval d k J Gi Mi p a) (meval d k J Gi Mi p b)
  | ESub a b => msub (meval d k J Gi Mi p a) (meval d k J Gi Mi p b)
  | EAdd a b => madd (meval d k J Gi Mi p a) (meval d k J Gi Mi p b)
  end.
Definition proj_canonical : mexp := ESub EMom (EMul Dk (ET EJ) (EMul Dk EGi (EMul Dd EJ (EMul Dd EMi EMom)))).

Section Step.
Variables d k : nat.
Variable c : mat -> mat.
Variable norm rnorm : mat -> Q.
Variable jac : mat -> mat.                       (* position |-> k x d Jacobian *)
Variable Mi : mat.                               (* inverse metric *)
Variable ginv : mat -> mat.                      (* position |-> inverse of the Gram matrix J Mi J^T *)
Variable inv_k : mat -> mat.                     (* k x k inverse used inside the solvers *)
Variable kick : Q -> mat -> mat -> mat.          (* dt, pos, mom |-> mom after h1_flow *)
Variable flow : Q -> mat -> mat -> mat * mat.    (* dt, pos, mom |-> h2_flow *)
Variable dflow : Q -> mat * mat.                 (* |dt| |-> (dh2_flow_pos_dmom, dh2_flow_mom_dmom) *)
Variables ctol ptol dtol rtol : Q.
Variables max_ls max_iters : nat.
Variable sh : shape.
Variable pexp : mexp.                            (* generated body of project_onto_cotangent_space *)

Definition proj_mom (q p : mat) : mat := meval d k (jac q) (ginv q) Mi p pexp.
Definition qsign (t : Q) : Q := match Qnum t with Z0 => 0 | Zpos _ => 1 | Zneg _ => -1 end.
Definition retract (dt : Q) (q p : mat) (qprev : mat) : option (mat * mat * nat) :=
  let '(q1, p1) := flow dt q p in
  let '(Dp, Dm) := dflow (Qabs dt) in
  let Jp := jac qprev in
  let gs := fun x con => mmul k (inv_k (fz k k (mmul d (if sh_quasi sh then Jp else jac x) (fz d k (mmul d Dp (mtr Jp)))))) con in
  solve d k c norm Jp Dp Dm gs ctol ptol dtol (qsign dt) max_ls sh max_iters (fz d 1 q1) (fz d 1 p1).

Definition cexec1 (t dt : Q) (o : cop) (s : cst) : option cst :=
  match o with
  | CKick f => Some {| pos := pos s; mom := fz d 1 (kick (f * t) (pos s) (mom s)); ppos := ppos s; pmom := pmom s |}
  | CProj => Some {| pos := pos s; mom := fz d 1 (proj_mom (pos s) (mom s)); ppos := ppos s; pmom := pmom s |}
  | CCopy => Some {| pos := pos s; mom := mom s; ppos := pos s; pmom := mom s |}
  | CFlowSolve => match retract dt (pos s) (mom s) (ppos s) with
                  | Some (q, p, _) => Some {| pos := q; mom := p; ppos := ppos s; pmom := pmom s |}
                  | None => None end
  | CRevCheck => match retract (- dt) (pos s) (mom s) (pos s) with
                 | Some (q, _, _) => if ltb rtol (rnorm (msub q (ppos s))) then None else Some s
                 | None => None end
  | CNote => Some s
  end.
Fixpoint cexec (t dt : Q) (ops : list cop) (s : cst) : option cst :=
  match ops with [] => Some s | o :: r => match cexec1 t dt o s with Some s' => cexec t dt r s' | None => None end end.

Fixpoint rep {A} (n : nat) (l : list A) : list A := match n with O => [] | S m => l ++ rep m l end.
End Step.
