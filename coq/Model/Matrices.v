(* Executable renderings of the structured algorithms of src/mici/matrices.py on concrete rational matrices, used by the
   correspondence checks of C10 / C11 / C08 (the identities themselves are proved for all sizes in Lib/). *)
From Coq Require Import QArith List.
Require Import Mici.Lib.QMat Mici.Lib.MatId.
Import ListNotations.
Open Scope Q_scope.

Definition of_list (l : list (list Q)) : mat := fun i j => nth j (nth i l []) 0.
Definition of_vec (l : list Q) : nat -> Q := fun i => nth i l 0.
Definition to_list (n m : nat) (A : mat) : list (list (Z * Z)) :=
  map (fun i => map (fun j => let q := Qred (A i j) in (Qnum q, Zpos (Qden q))) (seq 0 m)) (seq 0 n).
(* low-rank update M = A + s U K V (A: n x n, U: n x k, K: k x k, V: k x n) *)
Definition lowrank (n k : nat) (s : Q) (A U K V : mat) : mat := madd A (mscal s (mmul k U (mmul k K V))).
(* capacitance matrix K^-1 + s V A^-1 U and the Woodbury inverse A^-1 - s A^-1 U C^-1 V A^-1 *)
Definition capacitance (n k : nat) (s : Q) (Ai U Ki V : mat) : mat := madd Ki (mscal s (mmul n V (mmul n Ai U))).
Definition woodbury_inv (n k : nat) (s : Q) (Ai U Ci V : mat) : mat := msub Ai (mscal s (mmul n Ai (mmul k U (mmul k Ci (mmul n V Ai))))).
Definition trifactor (n : nat) (s : Q) (L : mat) : mat := mscal s (mmul n L (mtr L)).
Definition trifactor_inv (n : nat) (s : Q) (Li : mat) : mat := mscal s (mmul n (mtr Li) Li).
Definition eigmat (n : nat) (V : mat) (l : nat -> Q) : mat := eig n V l.
Definition eigmat_inv (n : nat) (V : mat) (l : nat -> Q) : mat := eig n V (fun i => / l i).
