(* Vocabulary of translator T4 (tie/translate_systems.py): per system class, the table of its cached methods with
   their declared dependencies, transitive syntactic reads of state variables and auxiliary outputs. *)
From Coq Require Import List String Bool Arith.
Import ListNotations.

Record cmeth := {
  cm_name : string;             (* method name *)
  cm_owner : string;            (* class whose definition the concrete class uses *)
  cm_decl : list nat;           (* declared dependencies (0 pos, 1 mom, 2 dir) *)
  cm_reads : list nat;          (* state variables read, transitively through self/super calls *)
  cm_aux : list (string * list nat)   (* auxiliary outputs with their transitive reads *)
}.

Definition subset (a b : list nat) : bool := forallb (fun x => existsb (Nat.eqb x) b) a.
Definition meth_sound (m : cmeth) : bool :=
  subset (cm_reads m) (cm_decl m) && forallb (fun a => subset (snd a) (cm_decl m)) (cm_aux m).
Definition table_sound (t : list cmeth) : bool := forallb meth_sound t.

(* keys of the cache model = positions in the table *)
Definition dflt : cmeth := {| cm_name := ""; cm_owner := ""; cm_decl := []; cm_reads := []; cm_aux := [] |}.
Fixpoint index_of (n : string) (t : list cmeth) : option nat :=
  match t with [] => None | m :: t => if String.eqb (cm_name m) n then Some 0 else option_map S (index_of n t) end.
Definition decl_of (t : list cmeth) (k : nat) : list nat := cm_decl (nth k t dflt).
Definition reads_of (t : list cmeth) (k : nat) : list nat := cm_reads (nth k t dflt).
Definition aux_of (t : list cmeth) (k : nat) : list nat :=
  flat_map (fun a => match index_of (fst a) t with Some i => [i] | None => [] end) (cm_aux (nth k t dflt)).
(* every auxiliary output is itself a cached method of the table and the table's record of its reads agrees *)
Definition aux_closed (t : list cmeth) : bool :=
  forallb (fun m => forallb (fun a => match index_of (fst a) t with
                                      | Some i => subset (reads_of t i) (snd a) | None => false end) (cm_aux m)) t.
