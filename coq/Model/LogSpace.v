(* Model of src/mici/utils.py: a small expression language into which translator T1
   (tie/translate_utils.py) renders the log-space helper functions and the LogRepFloat
   methods, with (i) a real-number semantics [evalR] over float-shaped values and
   (ii) an executable branch selector [select] over extended rationals used by the
   correspondence check. *)
From Coq Require Import Reals QArith Qreals List Bool Lra.
Import ListNotations.

Inductive prim := PExp | PExpm1 | PLog | PLog1p.

Inductive ex :=
| Var (n : nat)
| Cst (q : Q)
| CLog2 | CNaN | CPInf | CNInf | CErr
| Neg (e : ex)
| Add (a b : ex) | Sub (a b : ex) | Mul (a b : ex) | Div (a b : ex)
| Prim (p : prim) (e : ex)
| If (c : cnd) (t e : ex)
with cnd :=
| Gt (a b : ex) | Ge (a b : ex) | Lt (a b : ex) | Le (a b : ex) | Eq (a b : ex) | Ne (a b : ex)
| And (c d : cnd).

(* Python-level values handled by the LogRepFloat methods *)
Inductive pv :=
| PL (log_val : ex)          (* a LogRepFloat with this log_val *)
| PF (e : ex)                (* a plain float *)
| PB (c : cnd)               (* a bool *)
| PIf (c : cnd) (a b : pv)
| PErr.                      (* a raised exception *)

(* ------------------------------------------------------------------ real semantics *)
Open Scope R_scope.
Inductive xr := Fin (r : R) | PInf | NInf | NaN | Err.

Definition xneg (a : xr) : xr :=
  match a with Fin r => Fin (- r) | PInf => NInf | NInf => PInf | NaN => NaN | Err => Err end.
Definition xadd (a b : xr) : xr :=
  match a, b with
  | Err, _ | _, Err => Err
  | NaN, _ | _, NaN => NaN
  | Fin x, Fin y => Fin (x + y)
  | PInf, NInf | NInf, PInf => NaN
  | PInf, _ | _, PInf => PInf
  | NInf, _ | _, NInf => NInf
  end.
Definition xsub (a b : xr) : xr := xadd a (xneg b).
(* products / quotients are only needed on finite operands (plain values of weights);
   a zero divisor raises ZeroDivisionError in Python *)
Definition xmul (a b : xr) : xr :=
  match a, b with Fin x, Fin y => Fin (x * y) | Err, _ | _, Err => Err | _, _ => NaN end.
Definition xdiv (a b : xr) : xr :=
  match a, b with
  | Fin x, Fin y => if Req_EM_T y 0 then Err else Fin (x / y)
  | Err, _ | _, Err => Err | _, _ => NaN end.

Definition xlt (a b : xr) : bool :=
  match a, b with
  | Fin x, Fin y => if Rlt_dec x y then true else false
  | NInf, Fin _ | NInf, PInf | Fin _, PInf => true
  | _, _ => false
  end.
Definition xeq (a b : xr) : bool :=
  match a, b with
  | Fin x, Fin y => if Req_EM_T x y then true else false
  | PInf, PInf | NInf, NInf => true
  | _, _ => false
  end.
Definition xle a b := xlt a b || xeq a b.
Definition xisnan (a : xr) := match a with NaN | Err => true | _ => false end.

Definition expm1 (x : R) := exp x - 1.
Definition log1p (x : R) := ln (1 + x).

(* math.exp / expm1 / log / log1p.  math.log and math.log1p raise ValueError outside their domain. *)
Definition xprim (p : prim) (a : xr) : xr :=
  match p, a with
  | _, Err => Err
  | _, NaN => NaN
  | PExp, Fin r => Fin (exp r) | PExp, NInf => Fin 0 | PExp, PInf => PInf
  | PExpm1, Fin r => Fin (expm1 r) | PExpm1, NInf => Fin (-1) | PExpm1, PInf => PInf
  | PLog, Fin r => if Rlt_dec 0 r then Fin (ln r) else Err
  | PLog, PInf => PInf | PLog, NInf => Err
  | PLog1p, Fin r => if Rlt_dec (-1) r then Fin (log1p r) else Err
  | PLog1p, PInf => PInf | PLog1p, NInf => Err
  end.

Section EvalR.
  Variable env : nat -> xr.
  Fixpoint evalR (e : ex) : xr :=
    match e with
    | Var n => env n
    | Cst q => Fin (Q2R q)
    | CLog2 => Fin (ln 2)
    | CNaN => NaN | CPInf => PInf | CNInf => NInf | CErr => Err
    | Neg a => xneg (evalR a)
    | Add a b => xadd (evalR a) (evalR b)
    | Sub a b => xsub (evalR a) (evalR b)
    | Mul a b => xmul (evalR a) (evalR b)
    | Div a b => xdiv (evalR a) (evalR b)
    | Prim p a => xprim p (evalR a)
    | If c t f => if evalC c then evalR t else evalR f
    end
  with evalC (c : cnd) : bool :=
    match c with
    | Gt a b => xlt (evalR b) (evalR a)
    | Ge a b => xle (evalR b) (evalR a)
    | Lt a b => xlt (evalR a) (evalR b)
    | Le a b => xle (evalR a) (evalR b)
    | Eq a b => xeq (evalR a) (evalR b)
    | Ne a b => negb (xeq (evalR a) (evalR b))
    | And c d => evalC c && evalC d
    end.

  (* the straight-line formula evaluated on this input (real-number conditions) *)
  Fixpoint selectR (e : ex) : ex :=
    match e with
    | If c t f => if evalC c then selectR t else selectR f
    | Neg a => Neg (selectR a)
    | Add a b => Add (selectR a) (selectR b)
    | Sub a b => Sub (selectR a) (selectR b)
    | Mul a b => Mul (selectR a) (selectR b)
    | Div a b => Div (selectR a) (selectR b)
    | Prim p a => Prim p (selectR a)
    | e => e
    end.

  Inductive rv := RL (l : xr) | RF (x : xr) | RB (b : bool) | RErr.
  Fixpoint evalP (p : pv) : rv :=
    match p with
    | PL e => RL (evalR e)
    | PF e => match evalR e with Err => RErr | x => RF x end
    | PB c => RB (evalC c)
    | PIf c a b => if evalC c then evalP a else evalP b
    | PErr => RErr
    end.
End EvalR.

(* the real number a log-weight stands for: exp(log_val), zero weight for -inf *)
Definition wval (l : xr) : option R :=
  match l with Fin r => Some (exp r) | NInf => Some 0 | _ => None end.
Definition valid_w (l : xr) : Prop := match l with Fin _ | NInf => True | _ => False end.

Definition env1 (a : xr) : nat -> xr := fun _ => a.
Definition env2 (a b : xr) : nat -> xr := fun n => match n with O => a | _ => b end.
Close Scope R_scope.

(* ------------------------------------------------------------------ executable branch selection *)
(* Extended rationals: what a condition operand can evaluate to without knowing a primitive's
   numerical result.  QPos stands for "some positive finite real" (the value of exp at a finite
   argument): enough to decide the comparison with zero that utils.py makes. *)
Inductive xq := QFin (q : Q) | QPInf | QNInf | QNaN | QPos.

Definition qneg a : option xq :=
  match a with QFin q => Some (QFin (- q)) | QPInf => Some QNInf | QNInf => Some QPInf | QNaN => Some QNaN | QPos => None end.
Definition qadd a b : option xq :=
  match a, b with
  | QPos, _ | _, QPos => None
  | QNaN, _ | _, QNaN => Some QNaN
  | QFin x, QFin y => Some (QFin (x + y))
  | QPInf, QNInf | QNInf, QPInf => Some QNaN
  | QPInf, _ | _, QPInf => Some QPInf
  | QNInf, _ | _, QNInf => Some QNInf
  end.
Definition qle0 (q : Q) : bool := match Qcompare q 0 with Datatypes.Gt => false | _ => true end.
Definition qlt a b : option bool :=
  match a, b with
  | QFin x, QFin y => Some (match Qcompare x y with Datatypes.Lt => true | _ => false end)
  | QPos, QFin y => if qle0 y then Some false else None
  | QFin x, QPos => if qle0 x then Some true else None
  | QPos, QPos => None
  | QNInf, QFin _ | QNInf, QPInf | QFin _, QPInf | QNInf, QPos | QPos, QPInf => Some true
  | _, _ => Some false
  end.
Definition qeq a b : option bool :=
  match a, b with
  | QFin x, QFin y => Some (Qeq_bool x y)
  | QPos, QFin y | QFin y, QPos => if qle0 y then Some false else None
  | QPos, QPos => None
  | QPInf, QPInf | QNInf, QNInf => Some true
  | _, _ => Some false
  end.
Definition qle a b : option bool :=
  match qlt a b, qeq a b with Some x, Some y => Some (x || y) | _, _ => None end.
Definition obind {A B} (o : option A) (f : A -> option B) : option B := match o with Some a => f a | None => None end.

Section Select.
  Variable env : nat -> xq.
  Variable log2q : Q.      (* the double nearest to ln 2, as used by the implementation *)
  (* value of an expression as far as it is known without evaluating primitives numerically *)
  Fixpoint qval (e : ex) : option xq :=
    match e with
    | Var n => Some (env n)
    | Cst q => Some (QFin q)
    | CLog2 => Some (QFin log2q)
    | CNaN => Some QNaN | CPInf => Some QPInf | CNInf => Some QNInf
    | Neg a => obind (qval a) qneg
    | Add a b => obind (qval a) (fun x => obind (qval b) (qadd x))
    | Sub a b => obind (qval a) (fun x => obind (qval b) (fun y => obind (qneg y) (qadd x)))
    | Prim PExp a => match qval a with
                     | Some QNInf => Some (QFin 0) | Some (QFin _) => Some QPos
                     | Some QPInf => Some QPInf | Some QNaN => Some QNaN | _ => None end
    | _ => None
    end.
  Definition qcmp (f : xq -> xq -> option bool) a b := obind (qval a) (fun x => obind (qval b) (f x)).
  Fixpoint qcnd (c : cnd) : option bool :=
    match c with
    | Gt a b => qcmp (fun x y => qlt y x) a b
    | Ge a b => qcmp (fun x y => qle y x) a b
    | Lt a b => qcmp qlt a b
    | Le a b => qcmp qle a b
    | Eq a b => qcmp qeq a b
    | Ne a b => qcmp (fun x y => option_map negb (qeq x y)) a b
    | And c d => match qcnd c, qcnd d with Some x, Some y => Some (x && y) | _, _ => None end
    end.
  (* resolve every If: the straight-line formula the code evaluates on this input
     (None: a condition depends on a primitive's result -- not the case for utils.py) *)
  Fixpoint select (e : ex) : option ex :=
    match e with
    | If c t f => match qcnd c with Some true => select t | Some false => select f | None => None end
    | Neg a => option_map Neg (select a)
    | Add a b => match select a, select b with Some x, Some y => Some (Add x y) | _, _ => None end
    | Sub a b => match select a, select b with Some x, Some y => Some (Sub x y) | _, _ => None end
    | Mul a b => match select a, select b with Some x, Some y => Some (Mul x y) | _, _ => None end
    | Div a b => match select a, select b with Some x, Some y => Some (Div x y) | _, _ => None end
    | Prim p a => option_map (Prim p) (select a)
    | e => Some e
    end.
  (* sequence of primitive calls in evaluation order (arguments before the call, left before right;
     the operands of every condition evaluated on the way, with Python's short-circuit `and`) *)
  Fixpoint prims (e : ex) : list prim :=
    match e with
    | Neg a => prims a
    | Add a b | Sub a b | Mul a b | Div a b => prims a ++ prims b
    | Prim p a => prims a ++ [p]
    | If c t f => cprims c ++ match qcnd c with Some true => prims t | Some false => prims f | None => [] end
    | _ => []
    end
  with cprims (c : cnd) : list prim :=
    match c with
    | Gt a b | Ge a b | Lt a b | Le a b | Eq a b | Ne a b => prims a ++ prims b
    | And c d => cprims c ++ match qcnd c with Some true => cprims d | _ => [] end
    end.
  Fixpoint pprims (p : pv) : list prim :=
    match p with
    | PL e | PF e => prims e
    | PB c => cprims c
    | PIf c a b => cprims c ++ match qcnd c with Some true => pprims a | Some false => pprims b | None => [] end
    | PErr => []
    end.
  Fixpoint selectP (p : pv) : option pv :=
    match p with
    | PL e => option_map PL (select e)
    | PF e => option_map PF (select e)
    | PB c => option_map (fun b : bool => PB (if b then Eq (Cst 0) (Cst 0) else Ne (Cst 0) (Cst 0))) (qcnd c)
    | PIf c a b => match qcnd c with Some true => selectP a | Some false => selectP b | None => None end
    | PErr => Some PErr
    end.
  (* observable summary used by the correspondence: kind (0 L,1 F,2 bool true,3 bool false,4 error,5 stuck),
     primitive sequence (1 exp,2 expm1,3 log,4 log1p), and, if the result needs no primitive, its value *)
  Definition prim_code p := match p with PExp => 1%Z | PExpm1 => 2%Z | PLog => 3%Z | PLog1p => 4%Z end.
  Definition xq_code (v : option xq) : list Z :=
    match v with
    | None | Some QPos => [0%Z]
    | Some (QFin q) => let r := Qred q in [1%Z; Qnum r; Zpos (Qden r)]
    | Some QPInf => [2%Z] | Some QNInf => [3%Z] | Some QNaN => [4%Z]
    end.
  Definition has_err (e : ex) : bool :=
    (fix go e := match e with CErr => true | Neg a | Prim _ a => go a
                 | Add a b | Sub a b | Mul a b | Div a b => go a || go b | _ => false end) e.
  Definition obs_ex (e : ex) : list Z * list Z * list Z :=
    match select e with
    | None => ([5%Z], [], [])
    | Some s => if has_err s then ([4%Z], [], []) else ([1%Z], map prim_code (prims e), xq_code (qval s))
    end.
  Definition obs_pv (p : pv) : list Z * list Z * list Z :=
    match selectP p with
    | None => ([5%Z], [], [])
    | Some (PL s) => if has_err s then ([4%Z], [], []) else ([0%Z], map prim_code (pprims p), xq_code (qval s))
    | Some (PF s) => if has_err s then ([4%Z], [], []) else ([1%Z], map prim_code (pprims p), xq_code (qval s))
    | Some (PB c) => (match qcnd c with Some true => [2%Z] | Some false => [3%Z] | None => [5%Z] end, [], [])
    | Some _ => ([4%Z], [], [])
    end.
End Select.
