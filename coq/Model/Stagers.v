(* Vocabulary of the stager model: the target of translator T2 (tie/translate_stagers.py). *)
From Coq Require Import ZArith QArith List Bool.
Import ListNotations.
Open Scope Z_scope.

Inductive adapters := Fast | All | NoAd.           (* fast adapters only | all adapters | None *)
Record stage := { n_iter : Z; ads : adapters; traced : bool; stats : bool }.

(* int(c * e) for a decimal literal (or user setting) c and an integer e: truncation toward zero of
   the exact product.  Python rounds the float product first; agreement of the two on the values
   that occur is part of the correspondence check. *)
Definition int_mul (c : Q) (e : Z) : Z := Z.quot (Qnum c * e) (Zpos (Qden c)).

Definition sumz (l : list Z) := fold_right Z.add 0 l.
Definition is_warm (s : stage) := match ads s with NoAd => false | _ => true end.
Definition warm (l : list stage) := filter is_warm l.
Definition recorded (l : list stage) := sumz (map n_iter (filter stats l)).
