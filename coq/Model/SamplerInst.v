(* Executable instance of Model/Sampler.v used by the correspondence check: integer-valued chain states,
   two parameters (one set by a fast adapter, one by a slow adapter), generators as (chain, position) into a
   table of draws.  tie/sampler_stubs.py implements the same transition / adapters / trace function in Python
   on top of the public mici API. *)
From Coq Require Import ZArith List Bool Arith.
Require Import Mici.Model.Stagers Mici.Model.Sampler.
Import ListNotations.
Open Scope Z_scope.

Section Inst.
  Variable draws : list (list Z).
  Definition rng := (nat * nat)%type.
  Definition draw (r : rng) : Z := nth (snd r) (nth (fst r) draws []) 0.
  Definition adv (r : rng) : rng := (fst r, S (snd r)).
  Definition par := (Z * Z)%type.
  Definition ast := (Z * Z)%type.
  Definition fast_on (a : adapters) := match a with NoAd => false | _ => true end.
  Definition slow_on (a : adapters) := match a with All => true | _ => false end.

  Definition i_init (a : adapters) (p : par) (v : Z) : ast * par :=
    ((0, 0), if fast_on a then (v mod 3 + 50, snd p) else p).
  Definition i_iter (a : adapters) (p : par) (s : ast) (v : Z) (r : rng) : Z * Z * rng * ast * par :=
    let v' := (31 * v + 7 * fst p + 3 * snd p + draw r) mod 1000003 in
    let stat := fst p * 1000 + snd p in
    let fs := if fast_on a then fst s + v' else fst s in
    let ss := if slow_on a then snd s + 2 * v' else snd s in
    let pp := if fast_on a then fs mod 7 + 1 else fst p in
    let pq := if slow_on a then ss mod 5 + 1 else snd p in
    (v', stat, adv r, (fs, ss), (pp, pq)).
  Definition i_fin (a : adapters) (p : par) (asts : list ast) (chains : list (Z * rng)) : par * list (Z * rng) :=
    let pp := if fast_on a then fold_right Z.add 0 (map fst asts) mod 11 + 10 else fst p in
    let pq := if slow_on a then fold_right Z.add 0 (map snd asts) mod 13 + 20 else snd p in
    ((pp, pq), if slow_on a then map (fun c => ((fst c + draw (snd c)) mod 1000003, adv (snd c))) chains else chains).
  Definition i_tr (v : Z) : Z := 2 * v + 1.

  Definition w0 (inits : list Z) (p0 : par) : world Z rng par ast Z Z :=
    {| w_chain := fun c => (nth c inits 0, (c, O)); w_ast := fun _ => (0, 0); w_par := p0;
       w_tr := fun _ _ => None; w_st := fun _ _ => None; w_hist := fun _ => []; w_k := O; w_stop := false;
       w_ran := []; w_parlog := [] |}.

  Definition ov (o : option Z) : Z := match o with Some v => v | None => -1 end.
  (* observable outcome: per chain trace rows and statistics rows (-1 = fill), returned final states,
     final parameters, parameters seen by every sample call, interrupted flag *)
  Definition run_inst (stages : list stage) (nchain : nat) (intr : option nat) (inits : list Z) (p0 : par) (nrows : nat)
    : list (list Z) * list (list Z) * list Z * list Z * list Z * Z :=
    let w := run Z rng par ast Z Z i_init i_iter i_fin i_tr (0, 0) nchain intr stages (w0 inits p0) in
    (map (fun c => map (fun r => ov (w_tr _ _ _ _ _ _ w c r)) (seq 0 nrows)) (seq 0 nchain),
     map (fun c => map (fun r => ov (w_st _ _ _ _ _ _ w c r)) (seq 0 nrows)) (seq 0 nchain),
     final_states Z rng par ast Z Z nchain w,
     [fst (w_par _ _ _ _ _ _ w); snd (w_par _ _ _ _ _ _ w)],
     map (fun x => fst (snd x) * 1000 + snd (snd x)) (w_parlog _ _ _ _ _ _ w),
     if w_stop _ _ _ _ _ _ w then 1 else 0).
End Inst.
