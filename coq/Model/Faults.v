(* Exception flow model for C12: exception classes with the hierarchy regenerated from src/mici/errors.py (plus the two
   relevant built-in facts: numpy.linalg.LinAlgError and FloatingPointError-free ValueError hierarchy), handlers, and the
   common shape of the iterative solvers of src/mici/solvers.py:

     try:   for i in range(max_iters):
                x = F(x0)                       # user / system callbacks: a value, a NaN-valued result, or an exception
                if error > divergence_tol or isnan(error): raise ConvergenceError
                if error < tol: return x
                x0 = x
     except HANDLERS: raise ConvergenceError
     raise ConvergenceError                                                                                   *)
From Coq Require Import QArith List String Bool.
Import ListNotations.
Open Scope string_scope.

Definition builtin_bases : list (string * list string) :=
  [("ValueError", ["Exception"]); ("numpy.linalg.LinAlgError", ["ValueError"]); ("RuntimeError", ["Exception"]);
   ("FloatingPointError", ["ArithmeticError"]); ("ZeroDivisionError", ["ArithmeticError"]); ("ArithmeticError", ["Exception"]);
   ("TypeError", ["Exception"]); ("Exception", ["BaseException"]); ("KeyboardInterrupt", ["BaseException"])].
Section Hier.
  Variable bases : list (string * list string).
  Definition bases_of (c : string) : list string :=
    match find (fun p => String.eqb (fst p) c) (bases ++ builtin_bases) with Some p => snd p | None => [] end.
  Fixpoint subclass (fuel : nat) (c d : string) : bool :=
    String.eqb c d || match fuel with O => false | S f => existsb (fun b => subclass f b d) (bases_of c) end.
  Definition caught (handlers : list string) (e : string) : bool := existsb (subclass 8 e) handlers.
End Hier.

Section Solver.
  Variable X : Type.
  Inductive fout := Val (x : X) (err : Q) | NanVal | Raise (e : string).
  Inductive res := Ok (x : X) | Err (e : string).
  Variable bases : list (string * list string).
  Variable handlers : list string.
  Variable handler_raises : string.
  Variable F : nat -> X -> fout.              (* call index -> behaviour: the fault schedule *)
  Variables tol div_tol : Q.
  Fixpoint solve (iters : nat) (i : nat) (x0 : X) : res :=
    match iters with
    | O => Err "ConvergenceError"
    | S k =>
        match F i x0 with
        | Val x e => if Qle_bool e div_tol then (if negb (Qle_bool tol e) then Ok x else solve k (S i) x) else Err "ConvergenceError"
        | NanVal => Err "ConvergenceError"
        | Raise e => if caught bases handlers e then Err handler_raises else Err e
        end
    end.
End Solver.
