(* Model for C14: per-chain random streams and the collation of chain outputs returned by worker processes.
   A stream is (id, position); chain c is driven by stream id c (bit_generator.jumped(c)); a stage of n iterations of a
   chain consuming k draws per iteration advances the position by n*k.  Workers return (chain index, output) pairs in an
   arbitrary order (any assignment of chains to workers, any completion order); the parent sorts them by chain index. *)
From Coq Require Import List Arith Lia Permutation Sorted.
Import ListNotations.

Section Collate.
  Variable A : Type.
  Fixpoint insert (x : nat * A) (l : list (nat * A)) : list (nat * A) :=
    match l with [] => [x] | y :: r => if fst x <=? fst y then x :: l else y :: insert x r end.
  Fixpoint isort (l : list (nat * A)) : list (nat * A) := match l with [] => [] | x :: r => insert x (isort r) end.
  Definition collate (l : list (nat * A)) : list A := map snd (isort l).
End Collate.

(* streams *)
Definition stream := (nat * nat)%type.                (* id, position *)
(* the draws consumed by chain c over consecutive stages of the given (iterations x draws-per-iteration) sizes, when the
   generator state is threaded from stage to stage (sequential mode, and multi-process mode after the fix that returns the
   generator state from the workers) *)
Fixpoint consumed (c : nat) (pos : nat) (sizes : list nat) : list stream :=
  match sizes with [] => [] | n :: r => map (fun k => (c, pos + k)) (seq 0 n) ++ consumed c (pos + n) r end.
(* ... and when every stage restarts from the initial generator state (what multi-process mode did before the fix) *)
Fixpoint consumed_restart (c : nat) (sizes : list nat) : list stream :=
  match sizes with [] => [] | n :: r => map (fun k => (c, k)) (seq 0 n) ++ consumed_restart c r end.
