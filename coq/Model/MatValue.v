(* Value model of a matrix object for C19: a class name and an assignment of values to its defining fields, which never
   change after construction; equality compares the class's equality fields, the hash is a function of its hash fields,
   every lazily computed attribute (transpose, inverse, square root, eigendecomposition, factorisations, hash, dense array)
   is a function of the fields, computed on first request and cached. *)
From Coq Require Import List String Bool.
Import ListNotations.
Open Scope string_scope.

Section V.
  Variable Val : Type.
  Variable val_eqb : Val -> Val -> bool.
  Definition fields := string -> Val.
  Definition eqb_on (fs : list string) (f g : fields) : bool := forallb (fun a => val_eqb (f a) (g a)) fs.
  Variable H : list Val -> nat.
  Definition hash_on (fs : list string) (f : fields) : nat := H (map f fs).

  (* alias closure: two attribute names that always hold the same object *)
  Variable aliases : list (string * string).
  Fixpoint canon (fuel : nat) (a : string) : string :=
    match fuel with O => a | S k => match find (fun p => String.eqb (fst p) a) aliases with Some p => canon k (snd p) | None => a end end.
  Definition subset_mod (hs es : list string) : bool :=
    forallb (fun h => existsb (fun e => String.eqb (canon 4 h) (canon 4 e)) es) hs.

  (* lazy attribute cache *)
  Variable Attr : Type.
  Variable attr_eqb : Attr -> Attr -> bool.
  Variable compute : fields -> Attr -> Val.
  Definition cache := Attr -> option Val.
  Definition request (f : fields) (c : cache) (a : Attr) : cache * Val :=
    match c a with
    | Some v => (c, v)
    | None => let v := compute f a in (fun b => if attr_eqb b a then Some v else c b, v)
    end.
  Fixpoint requests (f : fields) (c : cache) (l : list Attr) : cache :=
    match l with [] => c | a :: r => requests f (fst (request f c a)) r end.
End V.
