(* Model of src/mici/integrators.py at the level of schedules: an integrator step is a list of
   (component, fraction of the time step).  Translator T3 (tie/translate_integrators.py) regenerates the schedules
   (Gen/SchedulesGen.v) and checks, statement for statement, that every implicit / constrained sub-step has the body the
   component semantics below describe (where the solve is, where the reversibility check is and what it compares). *)
From Coq Require Import QArith List Bool.
Import ListNotations.
Open Scope Q_scope.

Inductive comp :=
| H1 | H2                       (* exact component flows system.h1_flow / h2_flow *)
| Bfwd | Badj | Cfwd | Cadj     (* generalised leapfrog: implicit / explicit momentum and position half steps *)
| Mfwd | Madj                   (* implicit midpoint: implicit Euler, explicit Euler (+ reverse check) *)
| CA | CB.                      (* constrained leapfrog: h1 flow + cotangent projection; inner loop of retractions *)
Definition sched := list (comp * Q).

(* ---- SymmetricCompositionIntegrator.__init__ --------------------------------------------------------------
   coefficients = list(free); append 0.5 - sum(free[n%2::2]); append 1 - 2*sum(free[(n+1)%2::2]);
   self.coefficients = coefficients + coefficients[-2::-1];  flows = [a, b] * (n + 1) + [a]               *)
Fixpoint evens (l : list Q) : list Q := match l with [] => [] | x :: r => x :: odds r end
with odds (l : list Q) : list Q := match l with [] => [] | _ :: r => evens r end.
Definition sumq (l : list Q) : Q := fold_right Qplus 0 l.
Definition slice2 (start : nat) (l : list Q) : list Q := if Nat.even start then evens l else odds l.
Definition half_coeffs (free : list Q) : list Q :=
  let n := length free in
  free ++ [ (1#2) - sumq (slice2 n free) ] ++ [ 1 - 2 * sumq (slice2 (S n) free) ].
Definition coefficients (free : list Q) : list Q := let c := half_coeffs free in c ++ tl (rev c).
Fixpoint alternate (n : nat) (a b : comp) : list comp := match n with O => [] | S k => a :: b :: alternate k a b end.
Definition flows (initial_h1 : bool) (n_free : nat) : list comp :=
  let a := if initial_h1 then H1 else H2 in let b := if initial_h1 then H2 else H1 in
  alternate (S n_free) a b ++ [a].
Definition sym_schedule (initial_h1 : bool) (free : list Q) : sched := combine (flows initial_h1 (length free)) (coefficients free).

(* total fraction of the time step a component receives *)
Definition comp_eqb (a b : comp) : bool :=
  match a, b with H1,H1 | H2,H2 | Bfwd,Bfwd | Badj,Badj | Cfwd,Cfwd | Cadj,Cadj | Mfwd,Mfwd | Madj,Madj | CA,CA | CB,CB => true | _,_ => false end.
Fixpoint weight (c : comp) (l : sched) : Q :=
  match l with [] => 0 | (d, x) :: r => (if comp_eqb d c then x else 0) + weight c r end.

(* ---- explicit schedules over exact flows -------------------------------------------------------------------- *)
Section Explicit.
  Variable St : Type.
  Variable fl : comp -> Q -> St -> St.
  Fixpoint run (l : sched) (t : Q) (s : St) : St :=
    match l with [] => s | (c, a) :: r => run r t (fl c (a * t) s) end.
  Fixpoint steps (n : nat) (l : sched) (t : Q) (s : St) : St :=
    match n with O => s | S n' => steps n' l t (run l t s) end.
End Explicit.

(* ---- schedules with implicit sub-steps: deterministic solver oracle, reverse checks, failure ----------------- *)
Inductive res (A : Type) := Ok (a : A) | ConvErr | NonRev.
Arguments Ok {A}. Arguments ConvErr {A}. Arguments NonRev {A}.
Definition bind {A B} (r : res A) (k : A -> res B) : res B := match r with Ok a => k a | ConvErr => ConvErr | NonRev => NonRev end.

Section Implicit.
  Variables Pos Mom : Type.
  Variable pos_eqb : Pos -> Pos -> bool.
  Variable mom_eqb : Mom -> Mom -> bool.
  Definition st := (Pos * Mom)%type.
  Variable kick : Q -> Pos -> Mom -> Mom.                 (* h1 flow: p - t grad h1(q) *)
  Variable explB : Q -> Pos -> Mom -> Mom.                (* p - t d_q h2(q,p) *)
  Variable explC : Q -> Pos -> Mom -> Pos.                (* q + t d_p h2(q,p) *)
  Variable solveB : Q -> Pos -> Mom -> res Mom.           (* fixed point of p' = p - t d_q h2(q,p') *)
  Variable solveC : Q -> Mom -> Pos -> res Pos.           (* fixed point of q' = q + t d_p h2(q',p) *)
  Variable explM : Q -> st -> st.                         (* z + t f(z) *)
  Variable solveM : Q -> st -> res st.                    (* fixed point of z' = z + t f(z') *)
  (* constrained leapfrog *)
  Variable proj : Pos -> Mom -> Mom.                      (* projection onto the cotangent space at q *)
  Variable retract : Q -> st -> res st.                   (* h2 flow + projection solver: new position, corrected momentum *)
  Variable n_inner : nat.
  Variable tdiv : Q -> nat -> Q.                          (* time_step / n_inner_step *)

  Definition c_inner (t : Q) (s : st) : res st :=
    bind (retract t s) (fun s1 =>
      let s2 := (fst s1, proj (fst s1) (snd s1)) in
      match retract (- t) s2 with
      | Ok sb => if pos_eqb (fst sb) (fst s) then Ok s2 else NonRev
      | ConvErr => ConvErr | NonRev => NonRev end).
  Fixpoint c_loop (n : nat) (t : Q) (s : st) : res st :=
    match n with O => Ok s | S k => bind (c_inner t s) (c_loop k t) end.

  Definition sem (c : comp) (t : Q) (s : st) : res st :=
    match c with
    | H1 => Ok (fst s, kick t (fst s) (snd s))
    | H2 => ConvErr      (* not used by the implicit integrators *)
    | Bfwd => bind (solveB t (fst s) (snd s)) (fun p' => Ok (fst s, p'))
    | Badj => let p1 := explB t (fst s) (snd s) in
              match solveB (- t) (fst s) p1 with
              | Ok pb => if mom_eqb pb (snd s) then Ok (fst s, p1) else NonRev
              | ConvErr => ConvErr | NonRev => NonRev end
    | Cfwd => let q1 := explC t (fst s) (snd s) in
              match solveC (- t) (snd s) q1 with
              | Ok qb => if pos_eqb qb (fst s) then Ok (q1, snd s) else NonRev
              | ConvErr => ConvErr | NonRev => NonRev end
    | Cadj => bind (solveC t (snd s) (fst s)) (fun q' => Ok (q', snd s))
    | Mfwd => solveM t s
    | Madj => let z1 := explM t s in
              match solveM (- t) z1 with
              | Ok zb => if pos_eqb (fst zb) (fst s) && mom_eqb (snd zb) (snd s) then Ok z1 else NonRev
              | ConvErr => ConvErr | NonRev => NonRev end
    | CA => Ok (fst s, proj (fst s) (kick t (fst s) (snd s)))
    | CB => c_loop n_inner (tdiv t n_inner) s
    end.
  Fixpoint runr (l : sched) (t : Q) (s : st) : res st :=
    match l with [] => Ok s | (c, a) :: r => bind (sem c (a * t) s) (runr r t) end.
End Implicit.
