(* Focused model of the leapfrog call pattern on the state cache (gradient evaluation count); tied to the code by the call-count correspondence of tie/c18.py. *)
From Coq Require Import List Bool Arith Lia.
Import ListNotations.

(* A focused model of what the leapfrog integrator does to the state cache, to count gradient evaluations.
   One state variable pair (pos, mom); cached methods: G = grad_neg_log_dens (declared deps [pos]),
   V = dh2_dmom (declared deps [mom]).  A state carries version stamps of its variables and, for each cached
   method, the stamp of the variable value it was computed for (None = absent or invalidated).
   Copy keeps the cache; assigning a variable bumps its stamp and clears the entries that depend on it.      *)
Record st := { pv : nat; mv : nat; cg : option nat; cvv : option nat }.
Definition assign_pos (s : st) (fresh : nat) : st := {| pv := fresh; mv := mv s; cg := None; cvv := cvv s |}.
Definition assign_mom (s : st) (fresh : nat) : st := {| pv := pv s; mv := fresh; cg := cg s; cvv := None |}.
(* calling the cached gradient: (new state, number of real evaluations) *)
Definition call_g (s : st) : st * nat :=
  match cg s with Some _ => (s, 0) | None => ({| pv := pv s; mv := mv s; cg := Some (pv s); cvv := cvv s |}, 1) end.
Definition call_v (s : st) : st := match cvv s with Some _ => s | None => {| pv := pv s; mv := mv s; cg := cg s; cvv := Some (mv s) |} end.

(* LeapfrogIntegrator.step on EuclideanMetricSystem: copy; h1_flow (grad, assign mom); h2_flow (velocity, assign pos);
   h1_flow (grad, assign mom).  fresh stamps are supplied by a counter. *)
Definition lf_step (s : st) (c : nat) : st * nat * nat :=
  let s0 := s in                               (* state.copy(): cache carried over *)
  let '(s1, e1) := call_g s0 in
  let s2 := assign_mom s1 c in
  let s3 := call_v s2 in
  let s4 := assign_pos s3 (S c) in
  let '(s5, e2) := call_g s4 in
  let s6 := assign_mom s5 (S (S c)) in
  (s6, e1 + e2, 3 + c).
Fixpoint lf_steps (n : nat) (s : st) (c : nat) : st * nat :=
  match n with O => (s, 0) | S n' => let '(s', e, c') := lf_step s c in let '(s'', e') := lf_steps n' s' c' in (s'', e + e') end.

Definition has_g (s : st) : bool := match cg s with Some _ => true | None => false end.
Lemma lf_step_evals s c : let '(s', e, _) := lf_step s c in has_g s' = true /\ e = (if has_g s then 1 else 2).
Proof. unfold lf_step, call_g, has_g. destruct (cg s); cbn; auto. Qed.
Theorem leapfrog_grad_count n : forall s c, (0 < n)%nat ->
  snd (lf_steps n s c) = (if has_g s then n else S n).
Proof.
  induction n as [|n IH]; intros s c Hn; [lia|]. cbn [lf_steps].
  pose proof (lf_step_evals s c) as H. destruct (lf_step s c) as [[s' e] c'] eqn:E. destruct H as [Hg He].
  destruct n as [|n].
  - cbn [lf_steps snd]. rewrite He. destruct (has_g s); lia.
  - specialize (IH s' c' ltac:(lia)). destruct (lf_steps (S n) s' c') as [s'' e'] eqn:E2. cbn [snd] in *.
    rewrite IH, Hg, He. destruct (has_g s); lia.
Qed.

(* Dynamic (multinomial / slice) transitions grow the trajectory in BOTH time directions from the same initial state object.
   Integrator.step works on a copy of the edge state, so a gradient evaluated while growing one direction is cached in that
   direction's copy only and is not visible when the other direction starts from the initial state again (finding G15).
   grow_both nf nb s c = gradient evaluations of nf steps forward and nb steps backward, both started from s. *)
Definition grow_both (nf nb : nat) (s : st) (c : nat) : nat := snd (lf_steps nf s c) + snd (lf_steps nb s (c + 3 * nf)).
Lemma lf_steps_count n s c : snd (lf_steps n s c) = (if has_g s then n else n + Nat.min 1 n).
Proof.
  destruct n as [|n]; [cbn; destruct (has_g s); reflexivity|].
  rewrite leapfrog_grad_count by lia. destruct (has_g s); cbn [Nat.min]; lia.
Qed.
Theorem grow_both_count nf nb s c :
  grow_both nf nb s c = (if has_g s then nf + nb else nf + nb + Nat.min 1 nf + Nat.min 1 nb).
Proof. unfold grow_both. rewrite !lf_steps_count. destruct (has_g s); lia. Qed.
