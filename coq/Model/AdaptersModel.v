(* Models assembled from the GENERATED arithmetic (Gen/AdaptersGen.v): what an adapter computes for a whole history. *)
From Coq Require Import QArith Qminmax List Bool.
Require Import Mici.Model.Adapters Mici.Gen.AdaptersGen.
Import ListNotations.
Open Scope Q_scope.

(* --- metric adapters: initialize, update per position, finalize over the chains' states --- *)
Definition vstate := (Q * vec * vec)%type.
Definition cstate := (Q * vec * mat')%type.
Definition var_init : vstate := (0, vzero, vzero).
Definition cov_init : cstate := (0, vzero, mzero).
Definition var_step (s : vstate) (x : vec) : vstate := let '(n, m, a) := s in gen_var_update n m a x.
Definition cov_step (s : cstate) (x : vec) : cstate := let '(n, m, a) := s in gen_cov_update n m a x.
Definition var_chain (l : list vec) : vstate := fold_left var_step l var_init.
Definition cov_chain (l : list vec) : cstate := fold_left cov_step l cov_init.
Definition var_merge (a b : vstate) : vstate := let '(n, m, v) := a in let '(k, mk, vk) := b in gen_var_merge n m v k mk vk.
Definition cov_merge (a b : cstate) : cstate := let '(n, m, v) := a in let '(k, mk, vk) := b in gen_cov_merge n m v k mk vk.
Definition ltb2 (n : Q) : bool := match n ?= 2 with Lt => true | _ => false end.
(* finalize: None = AdaptationError (fewer than two samples) or no chain; the metric is set to the INVERSE of the result *)
Definition var_finalize (o scale : Q) (chains : list vstate) : option vec :=
  match chains with
  | [] => None
  | c0 :: rest => let '(n, _, v) := fold_left var_merge rest c0 in
                  if ltb2 n then None else Some (gen_var_regularize o scale (gen_var_scale v n) n)
  end.
Definition cov_finalize (o scale : Q) (chains : list cstate) : option mat' :=
  match chains with
  | [] => None
  | c0 :: rest => let '(n, _, v) := fold_left cov_merge rest c0 in
                  if ltb2 n then None else Some (gen_cov_regularize o scale (gen_cov_scale v n) n)
  end.

(* --- dual averaging --- *)
Section DA.
Variables (powf : Q -> Q -> Q) (expf logf : Q -> Q).
Variables (t0 delta kappa gamma : Q).      (* iter_offset, adapt_stat_target, iter_decay_coeff, log_step_size_reg_coefficient *)
Definition dstate := (Q * Q * Q * Q)%type.  (* iter, adapt_stat_error, smoothed_log_step_size, log_step_size_reg_target *)
Definition da_step (s : dstate) (a : Q) : dstate * Q :=
  let '(it, err, sm, mu) := s in
  let '(it', err', sm', mu', eps) := gen_da_update powf expf t0 delta kappa gamma it err sm mu a in ((it', err', sm', mu'), eps).
(* run over a history of statistics: final state and the step sizes set after each update *)
Fixpoint da_run (s : dstate) (l : list Q) : dstate * list Q :=
  match l with [] => (s, []) | a :: r => let '(s', e) := da_step s a in let '(s'', es) := da_run s' r in (s'', e :: es) end.
Definition da_init (target : option Q) (eps0 : Q) : dstate := gen_da_init logf target eps0.
End DA.

(* --- initial step-size search --- *)
Inductive outcome := Below | Above | NaN | Failed.     (* |delta h| <= log 2, > log 2, NaN, IntegratorError *)
Section Search.
Variable out : Q -> outcome.              (* one integrator step from the initial state at a given step size *)
Definition is_gt o := match o with Above => true | _ => false end.
Definition is_le o := match o with Below => true | _ => false end.
Definition is_nan o := match o with NaN => true | _ => false end.
(* state: step size, too-big flag; fuel = max_init_step_size_iters; first = (s == 0) *)
Fixpoint search (fuel : nat) (first : bool) (eps : Q) (tb : bool) : option Q :=
  match fuel with
  | O => None                                                    (* AdaptationError *)
  | S f =>
      match out eps with
      | Failed => search f false (eps / 2) true
      | o => let tb' := gen_search_flag first (is_nan o) (is_gt o) (is_le o) tb in
             if gen_search_return first (is_nan o) (is_gt o) (is_le o) tb' then Some eps
             else search f false (gen_search_move tb' eps) tb'
      end
  end.
Definition find_init_step_size (max_iters : nat) : option Q := search max_iters true gen_search_init false.
End Search.
