(* Vocabulary for the functions generated from src/mici/adapters.py by translator T8 (Gen/AdaptersGen.v) and the
   models built from them: Welford accumulation, pooled finalisation across chains, the dual-averaging recursion and the
   initial step-size search.  Exact rational arithmetic; exp / log / non-integer powers are parameters. *)
From Coq Require Import QArith Qminmax List Bool.
Import ListNotations.
Open Scope Q_scope.

Definition vec := nat -> Q.
Definition mat' := nat -> nat -> Q.
Definition vadd (a b : vec) : vec := fun i => a i + b i.
Definition vsub (a b : vec) : vec := fun i => a i - b i.
Definition vmul (a b : vec) : vec := fun i => a i * b i.
Definition vscal (c : Q) (a : vec) : vec := fun i => c * a i.
Definition vshift (c : Q) (a : vec) : vec := fun i => a i + c.
Definition madd' (a b : mat') : mat' := fun i j => a i j + b i j.
Definition mscal' (c : Q) (a : mat') : mat' := fun i j => c * a i j.
Definition mouter (a b : vec) : mat' := fun i j => a i * b j.            (* np.outer(a, b) *)
Definition router (r c : vec) : mat' := fun i j => r j * c i.            (* r[None, :] * c[:, None] *)
Definition mshift (s : Q) (a : mat') : mat' := fun i j => a i j + (if Nat.eqb i j then s else 0).   (* diagonal view += s *)
Definition lsum (l : list Q) : Q := fold_right Qplus 0 l.
Definition llen (l : list Q) : Q := inject_Z (Z.of_nat (length l)).
Definition lmin (l : list Q) : Q := match l with [] => 0 | x :: r => fold_left Qmin r x end.
Definition vzero : vec := fun _ => 0.
Definition mzero : mat' := fun _ _ => 0.
Definition qn (n : nat) : Q := inject_Z (Z.of_nat n).

(* batch statistics of a list of positions *)
Definition S1 (i : nat) (l : list vec) : Q := fold_right (fun x a => x i + a) 0 l.
Definition P (i j : nat) (l : list vec) : Q := fold_right (fun x a => x i * x j + a) 0 l.
(* pooled (unbiased) sample covariance of coordinates i, j *)
Definition pooled_cov (i j : nat) (l : list vec) : Q :=
  (P i j l - S1 i l * S1 j l / qn (length l)) / (qn (length l) - 1).
