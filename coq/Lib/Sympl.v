From Coq Require Import QArith Lia Lqa List Bool Setoid Morphisms.
Require Import Mici.Lib.QMat Mici.Lib.Wood.
Open Scope Q_scope.

Global Instance mtr_proper n m : Proper (meq n m ==> meq m n) mtr.
Proof. intros A B H i j Hi Hj. unfold mtr. apply H; auto. Qed.

(* A 2n x 2n matrix J = [[A,B],[C,D]] is symplectic (J^T Omega J = Omega) iff
   A^T C and B^T D are symmetric and A^T D - C^T B = I.                              *)
Section Sy.
Variable n : nat.
Definition msym (X : mat) := meq n n (mtr X) X.
Record blk := { bA : mat; bB : mat; bC : mat; bD : mat }.
Definition sympl (J : blk) : Prop :=
  msym (mmul n (mtr (bA J)) (bC J)) /\ msym (mmul n (mtr (bB J)) (bD J)) /\
  meq n n (msub (mmul n (mtr (bA J)) (bD J)) (mmul n (mtr (bC J)) (bB J))) mI.

(* momentum kick  (q,p) -> (q, p - t S q-linearisation): J = [[I,0],[-tS, I]] with S symmetric *)
Definition kick (t : Q) (S : mat) : blk := {| bA := mI; bB := m0; bC := mscal (- t) S; bD := mI |}.
(* drift (q,p) -> (q + t W p, p): J = [[I, tW],[0, I]] with W symmetric *)
Definition drift (t : Q) (W : mat) : blk := {| bA := mI; bB := mscal t W; bC := m0; bD := mI |}.

Lemma mI_tr : meq n n (mtr mI) mI.
Proof. intros i j _ _. unfold mtr, mI. rewrite Nat.eqb_sym. reflexivity. Qed.
Lemma mmul_0_l k m A : meq n m (mmul k m0 A) m0.
Proof. intros i j _ _. unfold mmul, m0. apply sumn_zero; intros; lra. Qed.
Lemma mmul_0_r k m A : meq n m (mmul k A m0) m0.
Proof. intros i j _ _. unfold mmul, m0. apply sumn_zero; intros; lra. Qed.

Theorem kick_symplectic t S : msym S -> sympl (kick t S).
Proof.
  intros HS. unfold sympl, kick, msym; cbn [bA bB bC bD]. repeat split.
  - rewrite mI_tr, (mmul_I_l n n). intros i j Hi Hj. unfold mtr, mscal. rewrite <- (HS i j Hi Hj). reflexivity.
  - intros i j Hi Hj. unfold mtr, mmul, m0. rewrite !sumn_zero; try reflexivity; intros; lra.
  - rewrite mI_tr, (mmul_I_l n n). intros i j Hi Hj. unfold msub, mmul, mtr, mscal, m0.
    rewrite sumn_zero by (intros; lra). lra.
Qed.
Theorem drift_symplectic t W : msym W -> sympl (drift t W).
Proof.
  intros HW. unfold sympl, drift, msym; cbn [bA bB bC bD]. repeat split.
  - intros i j Hi Hj. unfold mtr, mmul, m0. rewrite !sumn_zero; try reflexivity; intros; lra.
  - rewrite (mmul_I_r n n). intros i j Hi Hj. unfold mtr, mscal. rewrite (HW j i Hj Hi). reflexivity.
  - rewrite mI_tr, (mmul_I_l n n). intros i j Hi Hj. unfold msub, mmul, mtr, mscal, m0.
    rewrite sumn_zero by (intros; lra). lra.
Qed.
End Sy.


Section Comp.
Variable n : nat.
Definition bmul (J2 J1 : blk) : blk :=
  {| bA := madd (mmul n (bA J2) (bA J1)) (mmul n (bB J2) (bC J1));
     bB := madd (mmul n (bA J2) (bB J1)) (mmul n (bB J2) (bD J1));
     bC := madd (mmul n (bC J2) (bA J1)) (mmul n (bD J2) (bC J1));
     bD := madd (mmul n (bC J2) (bB J1)) (mmul n (bD J2) (bD J1)) |}.
End Comp.
