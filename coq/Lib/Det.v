From mathcomp Require Import all_ssreflect all_fingroup all_algebra.
Set Implicit Arguments.
Unset Strict Implicit.
Unset Printing Implicit Defensive.
Import GRing.Theory Num.Theory.
Local Open Scope ring_scope.

(* |det| identities behind every log_abs_det formula of src/mici/matrices.py, for all sizes, over any real field *)
Section AbsDet.
Variable F : realFieldType.
Variable n : nat.
Implicit Types A B : 'M[F]_n.

Definition adet A : F := `|\det A|.

Lemma adet_product A B : adet (A *m B) = adet A * adet B.
Proof. by rewrite /adet det_mulmx normrM. Qed.
Lemma adet_transpose A : adet A^T = adet A.
Proof. by rewrite /adet det_tr. Qed.
Lemma adet_inverse A : adet (invmx A) = (adet A)^-1.
Proof. by rewrite /adet det_inv normfV. Qed.
Lemma adet_identity : adet (1%:M : 'M[F]_n) = 1.
Proof. by rewrite /adet det1 normr1. Qed.
Lemma adet_scaled_identity (s : F) : adet (s%:M : 'M[F]_n) = `|s| ^+ n.
Proof. by rewrite /adet det_scalar normrX. Qed.
Lemma adet_scale (s : F) A : adet (s *: A) = `|s| ^+ n * adet A.
Proof. by rewrite /adet detZ normrM normrX. Qed.
Lemma adet_triangular A : is_trig_mx A -> adet A = \prod_i `|A i i|.
Proof. by move=> tA; rewrite /adet det_trig // normr_prod. Qed.
Lemma adet_diagonal (d : 'rV[F]_n) : adet (diag_mx d) = \prod_i `|d 0 i|.
Proof. by rewrite /adet det_diag normr_prod. Qed.
(* orthogonal matrices: Q Q^T = I  ->  |det Q| = 1 *)
Lemma adet_orthogonal A : A *m A^T = 1%:M -> adet A = 1.
Proof.
move=> H; have: adet A * adet A = 1 by rewrite -{2}(adet_transpose A) -adet_product H adet_identity.
rewrite -expr2 => /eqP; rewrite sqrf_eq1 => /orP [/eqP -> //|/eqP E].
by have := normr_ge0 (\det A); rewrite -/(adet A) E ler0N1.
Qed.
(* eigendecomposed (incl. SoftAbs): M = Q diag(l) Q^T with Q orthogonal *)
Lemma adet_eigendecomposed A (l : 'rV[F]_n) : A *m A^T = 1%:M -> adet (A *m diag_mx l *m A^T) = \prod_i `|l 0 i|.
Proof. by move=> H; rewrite !adet_product adet_transpose adet_diagonal adet_orthogonal // mul1r mulr1. Qed.
(* triangular-factored definite: M = s L L^T with |s| = 1 *)
Lemma adet_trifactored (s : F) A : `|s| = 1 -> adet (s *: (A *m A^T)) = adet A * adet A.
Proof. by move=> Hs; rewrite adet_scale Hs expr1n mul1r adet_product adet_transpose. Qed.
End AbsDet.

Section DetLemma.
Variable F : fieldType.
Variables n k : nat.

(* Schur complement, upper-left block invertible *)
Lemma det_block_schur_ul (A : 'M[F]_n) (B : 'M[F]_(n, k)) (C : 'M[F]_(k, n)) (D : 'M[F]_k) :
  A \in unitmx -> \det (block_mx A B C D) = \det A * \det (D - C *m invmx A *m B).
Proof.
move=> uA.
have -> : block_mx A B C D = block_mx 1%:M 0 (C *m invmx A) 1%:M *m block_mx A B 0 (D - C *m invmx A *m B).
  rewrite mulmx_block !mul1mx !mul0mx ?mulmx0 !addr0.
  rewrite -[C *m invmx A *m A]mulmxA mulVmx // mulmx1.
  by rewrite addrC subrK.
by rewrite det_mulmx det_lblock det_ublock !det1 !mul1r.
Qed.

(* Schur complement, lower-right block invertible *)
Lemma det_block_schur_dr (A : 'M[F]_n) (B : 'M[F]_(n, k)) (C : 'M[F]_(k, n)) (D : 'M[F]_k) :
  D \in unitmx -> \det (block_mx A B C D) = \det D * \det (A - B *m invmx D *m C).
Proof.
move=> uD.
have -> : block_mx A B C D = block_mx (A - B *m invmx D *m C) B 0 D *m block_mx 1%:M 0 (invmx D *m C) 1%:M.
  rewrite mulmx_block !mulmx1 !mul0mx ?mulmx0 !add0r ?addr0.
  by rewrite [D *m _]mulmxA mulmxV // mul1mx [B *m (_ *m _)]mulmxA subrK.
by rewrite det_mulmx det_ublock det_lblock !det1 !mulr1 mulrC.
Qed.

(* matrix determinant lemma with the signed capacitance matrix mici forms:
   det (A + s U C V) = det (C^-1 + s V A^-1 U) * det C * det A     for every scalar s (in particular s = 1, -1) *)
Theorem det_lowrank_update (A : 'M[F]_n) (U : 'M[F]_(n, k)) (C : 'M[F]_k) (V : 'M[F]_(k, n)) (s : F) :
  A \in unitmx -> C \in unitmx ->
  \det (A + s *: (U *m C *m V)) = \det (invmx C + s *: (V *m invmx A *m U)) * \det C * \det A.
Proof.
move=> uA uC.
have uCi : invmx C \in unitmx by rewrite unitmx_inv.
have E1 := det_block_schur_ul (- (s *: U)) V (invmx C) uA.
have E2 := det_block_schur_dr A (- (s *: U)) V uCi.
rewrite E1 in E2.
have -> : A + s *: (U *m C *m V) = A - - (s *: U) *m invmx (invmx C) *m V.
  by rewrite invmxK !mulNmx opprK -!scalemxAl.
have -> : invmx C + s *: (V *m invmx A *m U) = invmx C - V *m invmx A *m - (s *: U).
  by rewrite mulmxN opprK -scalemxAr.
have dC : \det C * \det (invmx C) = 1 by rewrite -det_mulmx mulmxV // det1.
rewrite -[LHS]mul1r -dC -mulrA -E2.
by rewrite [\det A * _]mulrC mulrA [\det C * _]mulrC.
Qed.
End DetLemma.

Section LowRank.
Variable F : realFieldType.
Variables n k : nat.
(* low-rank update / downdate: log|det M| = log|det capacitance| + log|det C| + log|det A| *)
Lemma adet_lowrank_update (A : 'M[F]_n) (U : 'M[F]_(n, k)) (C : 'M[F]_k) (V : 'M[F]_(k, n)) (s : F) :
  A \in unitmx -> C \in unitmx ->
  adet (A + s *: (U *m C *m V)) = adet (invmx C + s *: (V *m invmx A *m U)) * adet C * adet A.
Proof. by move=> uA uC; rewrite /adet det_lowrank_update // !normrM. Qed.
(* LU with partial pivoting: P A = L U, L unit lower triangular *)
Lemma adet_lu (A L U' : 'M[F]_n) (p : 'S_n) : perm_mx p *m A = L *m U' -> is_trig_mx L -> (forall i, L i i = 1) -> is_trig_mx U'^T ->
  adet A = \prod_i `|U' i i|.
Proof.
move=> E tL dL tU.
have: adet (perm_mx p *m A) = adet (L *m U') by rewrite E.
rewrite !adet_product {1}/adet det_perm normrX normrN1 expr1n mul1r => ->.
rewrite (adet_triangular tL) -(adet_transpose U') (adet_triangular tU).
rewrite big1 ?mul1r; last by move=> i _; rewrite dL normr1.
by apply: eq_bigr => i _; rewrite mxE.
Qed.
End LowRank.

Section Blocks.
Variable F : realFieldType.
Variables n k : nat.
(* block diagonal *)
Lemma adet_block_diag (A : 'M[F]_n) (D : 'M[F]_k) : adet (block_mx A 0 0 D) = adet A * adet D.
Proof. by rewrite /adet det_ublock normrM. Qed.
End Blocks.
