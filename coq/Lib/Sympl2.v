From Coq Require Import QArith Lia Lqa List Bool Setoid Morphisms.
Require Import Mici.Lib.QMat Mici.Lib.Wood Mici.Lib.Sympl.
Open Scope Q_scope.

Section F.
Variable n : nat.
Definition vec := nat -> Q.
Definition veq (x y : vec) := forall i, (i < n)%nat -> x i == y i.
Definition mv (A : mat) (q : vec) : vec := fun i => sumn n (fun k => A i k * q k).
Definition vadd (x y : vec) : vec := fun i => x i + y i.
Definition dot (x y : vec) : Q := sumn n (fun k => x k * y k).
Definition omega (q1 p1 q2 p2 : vec) : Q := dot q1 p2 - dot p1 q2.
Definition actq (J : blk) (q p : vec) : vec := vadd (mv (bA J) q) (mv (bB J) p).
Definition actp (J : blk) (q p : vec) : vec := vadd (mv (bC J) q) (mv (bD J) p).
(* J^T Omega J = Omega, stated on the bilinear form *)
Definition pres (J : blk) : Prop := forall q1 p1 q2 p2,
  omega (actq J q1 p1) (actp J q1 p1) (actq J q2 p2) (actp J q2 p2) == omega q1 p1 q2 p2.

Lemma dot_ext x x' y y' : veq x x' -> veq y y' -> dot x y == dot x' y'.
Proof. intros H1 H2. unfold dot. apply sumn_ext; intros k Hk. rewrite (H1 k Hk), (H2 k Hk). reflexivity. Qed.
Lemma omega_ext q1 p1 q2 p2 q1' p1' q2' p2' : veq q1 q1' -> veq p1 p1' -> veq q2 q2' -> veq p2 p2' ->
  omega q1 p1 q2 p2 == omega q1' p1' q2' p2'.
Proof. intros. unfold omega. rewrite (dot_ext q1 q1' p2 p2'), (dot_ext p1 p1' q2 q2'); auto. reflexivity. Qed.
Lemma mv_mmul A B q : veq (mv (mmul n A B) q) (mv A (mv B q)).
Proof.
  intros i Hi. unfold mv, mmul.
  rewrite (sumn_ext _ _ (fun k => sumn n (fun l => A i l * B l k * q k))) by (intros; rewrite sumn_scal_r; reflexivity).
  rewrite sumn_swap. apply sumn_ext; intros l Hl. rewrite <- sumn_scal. apply sumn_ext; intros; lra.
Qed.
Lemma mv_add A B q : veq (mv (madd A B) q) (vadd (mv A q) (mv B q)).
Proof. intros i Hi. unfold mv, madd, vadd. rewrite <- sumn_plus. apply sumn_ext; intros; lra. Qed.
Lemma mv_vadd A x y : veq (mv A (vadd x y)) (vadd (mv A x) (mv A y)).
Proof. intros i Hi. unfold mv, vadd. rewrite <- sumn_plus. apply sumn_ext; intros; lra. Qed.
Lemma mv_ext A x y : veq x y -> veq (mv A x) (mv A y).
Proof. intros H i Hi. unfold mv. apply sumn_ext; intros k Hk. rewrite (H k Hk). reflexivity. Qed.
Lemma vadd_ext a a' b b' : veq a a' -> veq b b' -> veq (vadd a b) (vadd a' b').
Proof. intros H1 H2 i Hi. unfold vadd. rewrite (H1 i Hi), (H2 i Hi). reflexivity. Qed.
Lemma veq_trans x y z : veq x y -> veq y z -> veq x z.
Proof. intros H1 H2 i Hi. rewrite (H1 i Hi). apply H2; auto. Qed.
Lemma veq_sym x y : veq x y -> veq y x. Proof. intros H i Hi. symmetry; auto. Qed.

Lemma act_bmul_q J2 J1 q p : veq (actq (bmul n J2 J1) q p) (actq J2 (actq J1 q p) (actp J1 q p)).
Proof.
  intros i Hi. unfold actq, actp, bmul; cbn [bA bB bC bD].
  pose proof (mv_add (mmul n (bA J2) (bA J1)) (mmul n (bB J2) (bC J1)) q i Hi) as E1.
  pose proof (mv_add (mmul n (bA J2) (bB J1)) (mmul n (bB J2) (bD J1)) p i Hi) as E2.
  pose proof (mv_mmul (bA J2) (bA J1) q i Hi) as F1. pose proof (mv_mmul (bB J2) (bC J1) q i Hi) as F2.
  pose proof (mv_mmul (bA J2) (bB J1) p i Hi) as F3. pose proof (mv_mmul (bB J2) (bD J1) p i Hi) as F4.
  pose proof (mv_vadd (bA J2) (mv (bA J1) q) (mv (bB J1) p) i Hi) as G1.
  pose proof (mv_vadd (bB J2) (mv (bC J1) q) (mv (bD J1) p) i Hi) as G2.
  unfold vadd in *. rewrite E1, E2, F1, F2, F3, F4, G1, G2. lra.
Qed.
Lemma act_bmul_p J2 J1 q p : veq (actp (bmul n J2 J1) q p) (actp J2 (actq J1 q p) (actp J1 q p)).
Proof.
  intros i Hi. unfold actq, actp, bmul; cbn [bA bB bC bD].
  pose proof (mv_add (mmul n (bC J2) (bA J1)) (mmul n (bD J2) (bC J1)) q i Hi) as E1.
  pose proof (mv_add (mmul n (bC J2) (bB J1)) (mmul n (bD J2) (bD J1)) p i Hi) as E2.
  pose proof (mv_mmul (bC J2) (bA J1) q i Hi) as F1. pose proof (mv_mmul (bD J2) (bC J1) q i Hi) as F2.
  pose proof (mv_mmul (bC J2) (bB J1) p i Hi) as F3. pose proof (mv_mmul (bD J2) (bD J1) p i Hi) as F4.
  pose proof (mv_vadd (bC J2) (mv (bA J1) q) (mv (bB J1) p) i Hi) as G1.
  pose proof (mv_vadd (bD J2) (mv (bC J1) q) (mv (bD J1) p) i Hi) as G2.
  unfold vadd in *. rewrite E1, E2, F1, F2, F3, F4, G1, G2. lra.
Qed.

Theorem pres_comp J2 J1 : pres J1 -> pres J2 -> pres (bmul n J2 J1).
Proof.
  intros H1 H2 q1 p1 q2 p2.
  eapply Qeq_trans; [apply omega_ext; [apply act_bmul_q | apply act_bmul_p | apply act_bmul_q | apply act_bmul_p]|].
  eapply Qeq_trans; [apply H2 | apply H1].
Qed.
Fixpoint bprod (l : list blk) : blk :=
  match l with nil => {| bA := mI; bB := m0; bC := m0; bD := mI |} | cons J r => bmul n (bprod r) J end.

Lemma mv_I q : veq (mv mI q) q.
Proof. intros i Hi. unfold mv, mI. apply (sumn_delta n q i Hi). Qed.
Lemma mv_0 q : veq (mv m0 q) (fun _ => 0).
Proof. intros i Hi. unfold mv, m0. apply sumn_zero; intros; lra. Qed.
Lemma mv_scal c A q : veq (mv (mscal c A) q) (fun i => c * mv A q i).
Proof. intros i Hi. unfold mv, mscal. rewrite <- sumn_scal. apply sumn_ext; intros; lra. Qed.
Lemma dot_sym_mat S x y : msym n S -> dot x (mv S y) == dot (mv S x) y.
Proof.
  intros HS. unfold dot, mv.
  rewrite (sumn_ext _ _ (fun k => sumn n (fun l => x k * S k l * y l))) by (intros; rewrite <- sumn_scal; apply sumn_ext; intros; lra).
  rewrite sumn_swap. apply sumn_ext; intros l Hl. rewrite <- sumn_scal_r. apply sumn_ext; intros k Hk.
  rewrite <- (HS l k Hl Hk). unfold mtr. lra.
Qed.
Lemma dot_plus_r x y z : dot x (vadd y z) == dot x y + dot x z.
Proof. unfold dot, vadd. rewrite <- sumn_plus. apply sumn_ext; intros; lra. Qed.
Lemma dot_plus_l x y z : dot (vadd x y) z == dot x z + dot y z.
Proof. unfold dot, vadd. rewrite <- sumn_plus. apply sumn_ext; intros; lra. Qed.
Lemma dot_scal_r c x y : dot x (fun i => c * y i) == c * dot x y.
Proof. unfold dot. rewrite <- sumn_scal. apply sumn_ext; intros; lra. Qed.
Lemma dot_scal_l c x y : dot (fun i => c * x i) y == c * dot x y.
Proof. unfold dot. rewrite <- sumn_scal. apply sumn_ext; intros; lra. Qed.
Lemma dot_0_r x : dot x (fun _ => 0) == 0. Proof. unfold dot. apply sumn_zero; intros; lra. Qed.
Lemma dot_0_l x : dot (fun _ => 0) x == 0. Proof. unfold dot. apply sumn_zero; intros; lra. Qed.

Theorem kick_pres t S : msym n S -> pres (kick t S).
Proof.
  intros HS q1 p1 q2 p2. unfold kick, actq, actp; cbn [bA bB bC bD].
  assert (Eq : forall q p, veq (vadd (mv mI q) (mv m0 p)) q).
  { intros q p i Hi. unfold vadd. rewrite (mv_I q i Hi), (mv_0 p i Hi). lra. }
  assert (Ep : forall q p, veq (vadd (mv (mscal (- t) S) q) (mv mI p)) (vadd (fun i => (- t) * mv S q i) p)).
  { intros q p i Hi. unfold vadd. rewrite (mv_scal (- t) S q i Hi), (mv_I p i Hi). reflexivity. }
  eapply Qeq_trans; [apply omega_ext; [apply Eq | apply Ep | apply Eq | apply Ep]|].
  unfold omega. rewrite dot_plus_r, dot_plus_l, dot_scal_r, dot_scal_l.
  rewrite (dot_sym_mat S q1 q2 HS). lra.
Qed.
Theorem drift_pres t W : msym n W -> pres (drift t W).
Proof.
  intros HW q1 p1 q2 p2. unfold drift, actq, actp; cbn [bA bB bC bD].
  assert (Eq : forall q p, veq (vadd (mv mI q) (mv (mscal t W) p)) (vadd q (fun i => t * mv W p i))).
  { intros q p i Hi. unfold vadd. rewrite (mv_I q i Hi), (mv_scal t W p i Hi). reflexivity. }
  assert (Ep : forall q p, veq (vadd (mv m0 q) (mv mI p)) p).
  { intros q p i Hi. unfold vadd. rewrite (mv_I p i Hi), (mv_0 q i Hi). lra. }
  eapply Qeq_trans; [apply omega_ext; [apply Eq | apply Ep | apply Eq | apply Ep]|].
  unfold omega. rewrite dot_plus_l, dot_plus_r, dot_scal_l, dot_scal_r.
  rewrite <- (dot_sym_mat W p1 p2 HW).
  assert (C : dot (mv W p2) p1 == dot p1 (mv W p2)) by (unfold dot; apply sumn_ext; intros; lra).
  unfold dot in *. lra.
Qed.
(* every explicit splitting integrator: any schedule of kicks and drifts is symplectic *)
Theorem schedule_pres (l : list blk) : (forall J, In J l -> pres J) -> pres (bprod l).
Proof.
  induction l as [|J r IH]; intros H; cbn [bprod].
  - intros q1 p1 q2 p2. unfold actq, actp; cbn [bA bB bC bD].
    apply omega_ext; intros i Hi; unfold vadd; rewrite ?(mv_I _ i Hi), ?(mv_0 _ i Hi); lra.
  - apply pres_comp; [apply H; left; auto| apply IH; intros; apply H; right; auto].
Qed.
End F.
Print Assumptions schedule_pres.

