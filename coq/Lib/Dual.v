From Coq Require Import QArith Lia Lqa List Bool Setoid Morphisms.
Require Import Mici.Lib.QMat Mici.Lib.Wood Mici.Lib.Sympl.
Open Scope Q_scope.

(* Dual matrices: (A, A') stands for A + eps A' with eps^2 = 0; the second component of a rational matrix
   expression is its exact directional derivative -- no limits.                                              *)
Record dmat := { re : mat; du : mat }.
Definition dmul (k : nat) (X Y : dmat) : dmat := {| re := mmul k (re X) (re Y); du := madd (mmul k (re X) (du Y)) (mmul k (du X) (re Y)) |}.
Definition deq (n m : nat) (X Y : dmat) := meq n m (re X) (re Y) /\ meq n m (du X) (du Y).
Definition dI : dmat := {| re := mI; du := m0 |}.
(* inverse of a dual matrix *)
Definition dinv (n : nat) (X : dmat) (Xi : mat) : dmat := {| re := Xi; du := mscal (-1) (mmul n Xi (mmul n (du X) Xi)) |}.

Theorem dinv_correct n X Xi : is_inv n (re X) Xi -> deq n n (dmul n X (dinv n X Xi)) dI.
Proof.
  intros [H1 H2]. unfold deq, dmul, dinv, dI; cbn [re du]. split; [exact H1|].
  rewrite (mmul_scal_r n n n (-1)). rewrite <- (mmul_assoc n n n n (re X) Xi). rewrite H1. rewrite (mmul_I_l n n).
  intros i j Hi Hj. unfold madd, mscal, m0. lra.
Qed.

(* ---- gradient of the quadratic form v^T M^-1 v for M = s L L^T with respect to L ---- *)
Section G.
Variable d : nat.
Variables (L Li : mat) (s : Q) (v : mat) (D : mat).   (* v : d x 1 ; D : direction of change of L *)
Hypothesis s2 : s * s == 1.
Hypothesis HL : is_inv d L Li.
Let Mi := mscal s (mmul d (mtr Li) Li).                 (* (s L L^T)^-1 = s L^-T L^-1 *)
Let dM := mscal s (madd (mmul d D (mtr L)) (mmul d L (mtr D))).   (* derivative of s L L^T in direction D *)
Let u := mmul d Mi v.                                   (* M^-1 v *)
Let w := mmul d Li v.                                   (* L^-1 v *)
(* directional derivative of v^T M^-1 v: second component of v^T (M + eps dM)^-1 v = - v^T Mi dM Mi v *)
Definition dquad : mat := mscal (-1) (mmul d (mtr v) (mmul d Mi (mmul d dM (mmul d Mi v)))).
(* claimed gradient contracted with the direction:  sum_ij D_ij * (-2 u_i w_j)  =  -2 u^T D w  *)
Definition grad_dot : mat := mscal (-2) (mmul d (mtr u) (mmul d D w)).

Lemma Mi_sym : meq d d (mtr Mi) Mi.
Proof. intros i j Hi Hj. unfold Mi, mtr, mscal, mmul. apply Qmult_comp; [reflexivity|]. apply sumn_ext; intros; lra. Qed.
Lemma Lt_u : meq d 1 (mmul d (mtr L) u) (mscal s w).
Proof.
  unfold u, w, Mi. destruct HL as [H1 H2].
  rewrite (mmul_scal_l d d 1 s). rewrite (mmul_scal_r d d 1 s). apply mscal_proper; [reflexivity|].
  rewrite (mmul_assoc d d d 1 (mtr Li) Li v). rewrite <- (mmul_assoc d d d 1 (mtr L) (mtr Li)).
  assert (E : meq d d (mmul d (mtr L) (mtr Li)) mI).
  { rewrite <- (mtr_mul d d d Li L). rewrite H2. intros i j _ _. unfold mtr, mI. rewrite Nat.eqb_sym. reflexivity. }
  rewrite E. apply mmul_I_l.
Qed.

Lemma vtMi : meq 1 d (mmul d (mtr v) Mi) (mtr u).
Proof.
  unfold u. rewrite (mtr_mul d d 1 Mi v). apply mmul_proper; [reflexivity|]. symmetry. apply Mi_sym.
Qed.
Lemma utL : meq 1 d (mmul d (mtr u) L) (mscal s (mtr w)).
Proof.
  (* (L^T u)^T = u^T L *)
  assert (E : meq 1 d (mmul d (mtr u) L) (mtr (mmul d (mtr L) u))).
  { rewrite (mtr_mul d d 1 (mtr L) u). apply mmul_proper; [reflexivity|]. intros i j _ _. reflexivity. }
  rewrite E. rewrite Lt_u. intros i j _ _. reflexivity.
Qed.

Theorem trifactor_grad_qf_correct : meq 1 1 dquad grad_dot.
Proof.
  unfold dquad, grad_dot.
  (* v^T Mi dM Mi v = u^T dM u *)
  assert (E1 : meq 1 1 (mmul d (mtr v) (mmul d Mi (mmul d dM (mmul d Mi v)))) (mmul d (mtr u) (mmul d dM u))).
  { rewrite <- (mmul_assoc 1 d d 1 (mtr v) Mi). rewrite vtMi. reflexivity. }
  rewrite E1. clear E1.
  (* dM u = s (D (L^T u) + L (D^T u)) *)
  assert (E2 : meq d 1 (mmul d dM u) (mscal s (madd (mmul d D (mscal s w)) (mmul d L (mmul d (mtr D) u))))).
  { unfold dM. rewrite (mmul_scal_l d d 1 s). apply mscal_proper; [reflexivity|].
    rewrite (mmul_add_l d d 1). rewrite (mmul_assoc d d d 1 D (mtr L) u). rewrite Lt_u.
    rewrite (mmul_assoc d d d 1 L (mtr D) u). reflexivity. }
  rewrite E2. clear E2.
  rewrite (mmul_scal_r 1 d 1 s). rewrite (mmul_add_r 1 d 1).
  rewrite (mmul_scal_r d d 1 s D w). rewrite (mmul_scal_r 1 d 1 s (mtr u)).
  rewrite <- (mmul_assoc 1 d d 1 (mtr u) L). rewrite utL. rewrite (mmul_scal_l 1 d 1 s).
  (* w^T D^T u is the transpose of u^T D w, a 1x1 matrix *)
  assert (E3 : meq 1 1 (mmul d (mtr w) (mmul d (mtr D) u)) (mmul d (mtr u) (mmul d D w))).
  { intros i j Hi Hj. assert (i = 0%nat) by lia. assert (j = 0%nat) by lia. subst.
    pose proof (mtr_mul 1 d 1 (mtr u) (mmul d D w) 0%nat 0%nat ltac:(lia) ltac:(lia)) as T.
    unfold mtr at 1 in T.
    pose proof (mtr_mul d d 1 D w) as T2.
    assert (T3 : meq 1 1 (mmul d (mtr (mmul d D w)) (mtr (mtr u))) (mmul d (mmul d (mtr w) (mtr D)) u)).
    { apply mmul_proper; [exact T2| intros a b _ _; reflexivity]. }
    pose proof (T3 0%nat 0%nat ltac:(lia) ltac:(lia)) as T4.
    pose proof (mmul_assoc 1 d d 1 (mtr w) (mtr D) u 0%nat 0%nat ltac:(lia) ltac:(lia)) as T5.
    rewrite T, T4, T5. reflexivity. }
  rewrite E3.
  intros i j Hi Hj. unfold mscal, madd.
  transitivity (-1 * ((s * s) * mmul d (mtr u) (mmul d D w) i j + (s * s) * mmul d (mtr u) (mmul d D w) i j)); [lra|].
  rewrite s2. lra.
Qed.
End G.
Print Assumptions trifactor_grad_qf_correct.

