From Coq Require Import QArith Lia Lqa List Bool Setoid Morphisms.
Require Import Mici.Lib.QMat Mici.Lib.Wood.
Open Scope Q_scope.

Section P.
Variables d c : nat.                      (* position dimension, number of constraints *)
Variables (Mi J G Gi : mat).              (* inverse metric d x d, Jacobian c x d, Gram c x c and its inverse *)
Hypothesis HG : meq c c G (mmul d J (mmul d Mi (mtr J))).
Hypothesis HGi : is_inv c G Gi.
(* momentum as a d x 1 matrix *)
Definition proj (p : mat) : mat := msub p (mmul c (mtr J) (mmul c Gi (mmul d J (mmul d Mi p)))).

Theorem cotangent_projection p : meq c 1 (mmul d J (mmul d Mi (proj p))) m0.
Proof.
  unfold proj. destruct HGi as [H1 H2].
  rewrite (mmul_sub_r d d 1 Mi). rewrite (mmul_sub_r c d 1 J).
  assert (E : meq c 1 (mmul d J (mmul d Mi (mmul c (mtr J) (mmul c Gi (mmul d J (mmul d Mi p))))))
                     (mmul d J (mmul d Mi p))).
  { rewrite <- (mmul_assoc d d c 1 Mi). rewrite <- (mmul_assoc c d c 1 J). rewrite <- HG.
    rewrite <- (mmul_assoc c c c 1 G Gi). rewrite H1. apply mmul_I_l. }
  rewrite E. intros i j _ _. unfold msub, m0. lra.
Qed.
Theorem projection_idempotent p : meq d 1 (proj (proj p)) (proj p).
Proof.
  unfold proj at 1. pose proof (cotangent_projection p) as Z.
  intros i j Hi Hj. unfold msub.
  assert (E : mmul c (mtr J) (mmul c Gi (mmul d J (mmul d Mi (proj p)))) i j == 0).
  { assert (EE : meq d 1 (mmul c (mtr J) (mmul c Gi (mmul d J (mmul d Mi (proj p))))) (mmul c (mtr J) (mmul c Gi m0))) by (rewrite Z; reflexivity).
    rewrite (EE i j Hi Hj). unfold mmul, m0. apply sumn_zero; intros. rewrite sumn_zero; [lra| intros; lra]. }
  rewrite E. lra.
Qed.
End P.
Print Assumptions projection_idempotent.
