From Coq Require Import QArith Lia Lqa List Bool Setoid Morphisms.
Require Import Mici.Lib.QMat Mici.Lib.Wood Mici.Lib.Sympl.
Open Scope Q_scope.

(* C08: covariance of a momentum drawn as  Proj (L z)  with L L^T = M:
   Cov = Proj M Proj^T = M - J^T G^-1 J,  where Proj = I - J^T G^-1 J M^-1,  G = J M^-1 J^T. *)
Section Cv.
Variables d c : nat.
Variables (M Mi J G Gi : mat).
Hypothesis HM : is_inv d M Mi.
Hypothesis HG : meq c c G (mmul d J (mmul d Mi (mtr J))).
Hypothesis HGi : is_inv c G Gi.
Hypothesis Gi_sym : meq c c (mtr Gi) Gi.
Let JGJ := mmul c (mtr J) (mmul c Gi J).            (* J^T G^-1 J : d x d *)
Let P := msub mI (mmul d JGJ Mi).                     (* projection *)
Let Pt := msub mI (mmul d Mi JGJ).                    (* its transpose when M^-1 and G^-1 are symmetric *)

Lemma JGJ_MiJGJ : meq d d (mmul d JGJ (mmul d Mi JGJ)) JGJ.
Proof.
  unfold JGJ. destruct HGi as [H1 H2].
  (* J^T Gi J Mi J^T Gi J = J^T Gi (J Mi J^T) Gi J = J^T Gi G Gi J = J^T Gi J *)
  rewrite (mmul_assoc d c d d (mtr J)). apply mmul_proper; [reflexivity|].
  rewrite (mmul_assoc c c d d Gi). apply mmul_proper; [reflexivity|].
  rewrite <- (mmul_assoc c d d d J Mi). rewrite <- (mmul_assoc c d c d (mmul d J Mi)).
  rewrite (mmul_assoc c d d c J Mi (mtr J)). rewrite <- HG.
  rewrite <- (mmul_assoc c c c d G Gi J). rewrite H1. apply mmul_I_l.
Qed.

Theorem projected_covariance : meq d d (mmul d P (mmul d M Pt)) (msub M JGJ).
Proof.
  unfold P, Pt. destruct HM as [M1 M2].
  rewrite (mmul_sub_r d d d M). rewrite (mmul_I_r d d M).
  rewrite <- (mmul_assoc d d d d M Mi JGJ). rewrite M1. rewrite (mmul_I_l d d JGJ).
  rewrite (mmul_sub_l d d d mI). rewrite (mmul_I_l d d).
  rewrite (mmul_sub_r d d d (mmul d JGJ Mi)).
  rewrite (mmul_assoc d d d d JGJ Mi M). rewrite M2. rewrite (mmul_I_r d d JGJ).
  rewrite (mmul_assoc d d d d JGJ Mi JGJ). rewrite JGJ_MiJGJ.
  intros i j Hi Hj. unfold msub. lra.
Qed.
End Cv.
Print Assumptions projected_covariance.
