From Coq Require Import QArith Lia Lqa List Bool Setoid Morphisms.
Require Import Mici.Lib.QMat Mici.Lib.Wood Mici.Lib.Dual.
Open Scope Q_scope.

(* Gradients of the quadratic form v^T M^-1 v with respect to the parameters of every rational parametrisation used by
   mici's differentiable matrix classes, as statements about the dual-number second component of v^T (M + eps M')^-1 v.
   All sizes, all vectors, all directions.                                                                             *)

Definition dconst (A : mat) : dmat := {| re := A; du := m0 |}.
(* v^T X^-1 v as a dual 1x1 matrix (v constant) *)
Definition dqf (n : nat) (X : dmat) (Xi : mat) (v : mat) : dmat := dmul n (dconst (mtr v)) (dmul n (dinv n X Xi) (dconst v)).
(* <G, D> = sum_ij G_ij D_ij : what "the gradient G predicts for the direction D" means *)
Definition contract (n k : nat) (G D : mat) : Q := sumn n (fun i => sumn k (fun j => G i j * D i j)).
Definition outer (u w : mat) : mat := fun i j => u i 0%nat * w j 0%nat.
Definition mdiag (dl : nat -> Q) : mat := fun i j => if Nat.eqb i j then dl i else 0.

Lemma mmul_m0_l n k m A : meq n m (mmul k m0 A) m0.
Proof. intros i j _ _. unfold mmul, m0. apply sumn_zero; intros; lra. Qed.
Lemma mmul_m0_r n k m A : meq n m (mmul k A m0) m0.
Proof. intros i j _ _. unfold mmul, m0. apply sumn_zero; intros; lra. Qed.

Lemma madd_m0_l n m A : meq n m (madd m0 A) A.
Proof. intros i j _ _. unfold madd, m0. lra. Qed.
Lemma madd_m0_r n m A : meq n m (madd A m0) A.
Proof. intros i j _ _. unfold madd, m0. lra. Qed.

(* u^T D w = <u w^T, D> *)
Lemma quad_contract n k u D w : mmul n (mtr u) (mmul k D w) 0%nat 0%nat == contract n k (outer u w) D.
Proof.
  unfold contract, outer, mmul, mtr. apply sumn_ext; intros i _. rewrite <- sumn_scal. apply sumn_ext; intros j _. lra.
Qed.
(* b^T B^T a = a^T B b (a 1x1 matrix is its own transpose) *)
Lemma bilinear_tr n k a B b : mmul k (mtr b) (mmul n (mtr B) a) 0%nat 0%nat == mmul n (mtr a) (mmul k B b) 0%nat 0%nat.
Proof.
  unfold mmul, mtr.
  transitivity (sumn k (fun j => sumn n (fun i => b j 0%nat * (B i j * a i 0%nat)))).
  { apply sumn_ext; intros j _. rewrite sumn_scal. reflexivity. }
  rewrite sumn_swap. apply sumn_ext; intros i _. rewrite <- sumn_scal. apply sumn_ext; intros j _. lra.
Qed.

Section QF.
Variable n : nat.
Variables (M Mi dM v : mat).
Hypothesis Hs : meq n n (mtr Mi) Mi.
Let X := {| re := M; du := dM |}.
Let u := mmul n Mi v.

Lemma vt_Mi : meq 1 n (mmul n (mtr v) Mi) (mtr u).
Proof. unfold u. rewrite (mtr_mul n n 1 Mi v). apply mmul_proper; [reflexivity|]. symmetry. exact Hs. Qed.

(* the dual-number second component of v^T (M + eps dM)^-1 v is  - u^T dM u,  u = M^-1 v *)
Lemma dqf_du : meq 1 1 (du (dqf n X Mi v)) (mscal (-1) (mmul n (mtr u) (mmul n dM u))).
Proof.
  unfold dqf, dmul, dinv, dconst, X; cbn [re du].
  rewrite (mmul_m0_l 1 n 1 (mmul n Mi v)). rewrite (mmul_m0_r n n 1 Mi).
  assert (E : meq 1 1 (mmul n (mtr v) (mmul n (mscal (-1) (mmul n Mi (mmul n dM Mi))) v))
                       (mscal (-1) (mmul n (mtr u) (mmul n dM u)))).
  { rewrite (mmul_scal_l n n 1 (-1)). rewrite (mmul_scal_r 1 n 1 (-1)). apply mscal_proper; [reflexivity|].
    rewrite (mmul_assoc n n n 1 Mi (mmul n dM Mi) v). rewrite <- (mmul_assoc 1 n n 1 (mtr v) Mi).
    rewrite vt_Mi. rewrite (mmul_assoc n n n 1 dM Mi v). reflexivity. }
  rewrite (madd_m0_l n 1). rewrite (madd_m0_r 1 1). exact E.
Qed.
End QF.

(* ---- (a) factor-type parameters:  M' = c (D K F^T + F K D^T), K symmetric.
   Covers TriangularFactoredDefiniteMatrix (F = L, K = I, c = sign), DensePositiveDefiniteProductMatrix (F = rect, K = inner, c = 1)
   and PositiveDefiniteLowRankUpdateMatrix with respect to its factor matrix (F = factor, K = inner, c = sign). ---- *)
Section Factor.
Variables n k : nat.
Variables (M Mi F K D v : mat) (c : Q).
Hypothesis Hs : meq n n (mtr Mi) Mi.
Hypothesis HK : meq k k (mtr K) K.
Let dM := mscal c (madd (mmul k D (mmul k K (mtr F))) (mmul k F (mmul k K (mtr D)))).
Let X := {| re := M; du := dM |}.
Let u := mmul n Mi v.
Let w := mmul k K (mmul n (mtr F) u).          (* K F^T M^-1 v *)
Definition factor_grad : mat := mscal (-2 * c) (outer u w).      (* the gradient the classes report *)

Lemma utFK : meq 1 k (mmul k (mmul n (mtr u) F) K) (mtr w).
Proof.
  unfold w. rewrite (mtr_mul k k 1 K (mmul n (mtr F) u)). rewrite (mtr_mul k n 1 (mtr F) u).
  apply mmul_proper; [|symmetry; exact HK]. apply mmul_proper; [reflexivity|]. intros i j _ _. reflexivity.
Qed.

Theorem factor_grad_qf_correct : du (dqf n X Mi v) 0%nat 0%nat == contract n k factor_grad D.
Proof.
  eapply Qeq_trans; [apply (dqf_du n M Mi dM v Hs 0%nat 0%nat); lia|]. fold u.
  assert (E1 : meq 1 1 (mmul n (mtr u) (mmul n dM u))
                       (mscal c (madd (mmul n (mtr u) (mmul k D w)) (mmul k (mtr w) (mmul n (mtr D) u))))).
  { unfold dM. rewrite (mmul_scal_l n n 1 c). rewrite (mmul_scal_r 1 n 1 c). apply mscal_proper; [reflexivity|].
    rewrite (mmul_add_l n n 1). rewrite (mmul_add_r 1 n 1). apply madd_proper.
    - rewrite (mmul_assoc n k n 1 D (mmul k K (mtr F)) u). rewrite (mmul_assoc k k n 1 K (mtr F) u). reflexivity.
    - rewrite (mmul_assoc n k n 1 F (mmul k K (mtr D)) u). rewrite (mmul_assoc k k n 1 K (mtr D) u).
      rewrite <- (mmul_assoc 1 n k 1 (mtr u) F). rewrite <- (mmul_assoc 1 k k 1 (mmul n (mtr u) F) K).
      rewrite utFK. reflexivity. }
  unfold mscal at 1. rewrite (E1 0%nat 0%nat) by lia. unfold mscal, madd.
  rewrite (bilinear_tr n k u D w). rewrite (quad_contract n k u D w).
  unfold factor_grad, contract, mscal.
  transitivity ((-2 * c) * sumn n (fun i => sumn k (fun j => outer u w i j * D i j))); [unfold contract; lra|].
  rewrite <- sumn_scal. apply sumn_ext; intros i _. rewrite <- sumn_scal. apply sumn_ext; intros j _. lra.
Qed.
End Factor.

(* ---- (b) the matrix itself is the parameter (DenseDefiniteMatrix, DensePositiveDefiniteMatrix): M' = D, gradient - u u^T ---- *)
Section Dense.
Variable n : nat.
Variables (M Mi D v : mat).
Hypothesis Hs : meq n n (mtr Mi) Mi.
Let X := {| re := M; du := D |}.
Let u := mmul n Mi v.
Definition dense_grad : mat := mscal (-1) (outer u u).
Theorem dense_grad_qf_correct : du (dqf n X Mi v) 0%nat 0%nat == contract n n dense_grad D.
Proof.
  eapply Qeq_trans; [apply (dqf_du n M Mi D v Hs 0%nat 0%nat); lia|]. fold u. unfold mscal at 1. rewrite (quad_contract n n u D u).
  unfold dense_grad, contract, mscal. rewrite <- sumn_scal. apply sumn_ext; intros i _. rewrite <- sumn_scal. apply sumn_ext; intros j _. lra.
Qed.
End Dense.

(* ---- (c) diagonal parameters (DiagonalMatrix, PositiveDiagonalMatrix): M' = diag(dl), gradient - (M^-1 v)^2 elementwise ---- *)
Section Diag.
Variable n : nat.
Variables (M Mi v : mat) (dl : nat -> Q).
Hypothesis Hs : meq n n (mtr Mi) Mi.
Let X := {| re := M; du := mdiag dl |}.
Let u := mmul n Mi v.
Definition diag_grad : nat -> Q := fun i => - (u i 0%nat * u i 0%nat).
Theorem diag_grad_qf_correct : du (dqf n X Mi v) 0%nat 0%nat == sumn n (fun i => diag_grad i * dl i).
Proof.
  eapply Qeq_trans; [apply (dqf_du n M Mi (mdiag dl) v Hs 0%nat 0%nat); lia|]. fold u. unfold mscal, diag_grad.
  unfold mmul at 1. rewrite <- sumn_scal. apply sumn_ext; intros i Hi. unfold mtr.
  assert (E : mmul n (mdiag dl) u i 0%nat == dl i * u i 0%nat).
  { unfold mmul, mdiag.
    rewrite (sumn_ext n _ (fun l => (if Nat.eqb i l then 1 else 0) * (dl i * u l 0%nat))).
    - apply (sumn_delta n (fun l => dl i * u l 0%nat) i Hi).
    - intros l _. destruct (Nat.eqb i l); lra. }
  rewrite E. lra.
Qed.
End Diag.

(* ---- (d) scaled identity (ScaledIdentityMatrix, PositiveScaledIdentityMatrix): M = s I, M' = ds I, gradient - sum(v^2) / s^2 ---- *)
Section Scaled.
Variable n : nat.
Variables (v : mat) (s ds : Q).
Hypothesis s0 : ~ s == 0.
Let M := mscal s mI.
Let Mi := mscal (/ s) mI.
Let X := {| re := M; du := mscal ds mI |}.
Definition scaled_grad : Q := - sumn n (fun i => v i 0%nat * v i 0%nat) / (s * s).
Lemma scaled_is_inv : is_inv n M Mi.
Proof.
  assert (E : meq n n (mmul n (mscal s mI) (mscal (/ s) mI)) mI).
  { rewrite (mmul_scal_l n n n s). rewrite (mmul_scal_r n n n (/ s)). rewrite (mmul_I_l n n mI).
    intros i j _ _. unfold mscal. field. exact s0. }
  split; [exact E|].
  unfold M, Mi. rewrite (mmul_scal_l n n n (/ s)). rewrite (mmul_scal_r n n n s). rewrite (mmul_I_l n n mI).
  intros i j _ _. unfold mscal. field. exact s0.
Qed.
Lemma scaled_Mi_sym : meq n n (mtr Mi) Mi.
Proof. intros i j _ _. unfold Mi, mtr, mscal, mI. rewrite Nat.eqb_sym. reflexivity. Qed.
Theorem scaled_grad_qf_correct : du (dqf n X Mi v) 0%nat 0%nat == scaled_grad * ds.
Proof.
  assert (Ed : meq n n (mscal ds mI) (mdiag (fun _ => ds))).
  { intros i j _ _. unfold mscal, mdiag, mI. destruct (Nat.eqb i j); lra. }
  assert (E0 : meq 1 1 (du (dqf n X Mi v)) (du (dqf n {| re := M; du := mdiag (fun _ => ds) |} Mi v))).
  { eapply meq_trans; [apply (dqf_du n M Mi (mscal ds mI) v scaled_Mi_sym)|].
    eapply meq_trans; [|apply meq_sym; apply (dqf_du n M Mi (mdiag (fun _ => ds)) v scaled_Mi_sym)].
    apply mscal_proper; [reflexivity|]. apply mmul_proper; [reflexivity|]. apply mmul_proper; [exact Ed|reflexivity]. }
  eapply Qeq_trans; [apply (E0 0%nat 0%nat); lia|].
  eapply Qeq_trans; [apply (diag_grad_qf_correct n M Mi v (fun _ => ds) scaled_Mi_sym)|].
  unfold scaled_grad, diag_grad.
  assert (Eu : forall i, (i < n)%nat -> mmul n Mi v i 0%nat == / s * v i 0%nat).
  { intros i Hi. pose proof (mmul_scal_l n n 1 (/ s) mI v i 0%nat Hi ltac:(lia)) as H1. unfold Mi. rewrite H1.
    unfold mscal. rewrite (mmul_I_l n 1 v i 0%nat Hi ltac:(lia)). reflexivity. }
  rewrite (sumn_ext n _ (fun i => (- ds / (s * s)) * (v i 0%nat * v i 0%nat))).
  - rewrite sumn_scal. field. exact s0.
  - intros i Hi. rewrite (Eu i Hi). field. exact s0.
Qed.
End Scaled.

(* a symmetric matrix's inverse is symmetric: the hypothesis `mtr Mi = Mi` above follows from symmetry of M *)
Lemma inv_sym n M Mi : is_inv n M Mi -> meq n n (mtr M) M -> meq n n (mtr Mi) Mi.
Proof.
  intros [H1 H2] Hm.
  assert (E : meq n n (mmul n (mtr Mi) M) mI).
  { assert (T : meq n n (mtr (mmul n M Mi)) (mmul n (mtr Mi) (mtr M))) by apply mtr_mul.
    rewrite <- Hm at 1. rewrite <- T. intros i j Hi Hj. unfold mtr. rewrite (H1 j i Hj Hi). unfold mI. rewrite Nat.eqb_sym. reflexivity. }
  rewrite <- (mmul_I_r n n (mtr Mi)). rewrite <- H1. rewrite <- (mmul_assoc n n n n (mtr Mi) M Mi). rewrite E. apply mmul_I_l.
Qed.

(* ---- evaluation helpers for the correspondence check: materialise intermediate matrices (with Qred) so that nested products are
   not recomputed entry by entry; proved equal to the definitions they stand for ---- *)
Definition freeze (n m : nat) (A : mat) : mat :=
  let l := map (fun i => map (fun j => Qred (A i j)) (seq 0 m)) (seq 0 n) in fun i j => nth j (nth i l nil) 0.
Lemma freeze_meq n m A : meq n m (freeze n m A) A.
Proof.
  intros i j Hi Hj. unfold freeze.
  set (f := fun i0 : nat => map (fun j0 : nat => Qred (A i0 j0)) (seq 0 m)).
  rewrite (nth_indep (map f (seq 0 n)) nil (f 0%nat)) by (rewrite map_length, seq_length; exact Hi).
  rewrite (map_nth f (seq 0 n) 0%nat i). rewrite seq_nth by exact Hi. cbn [plus]. unfold f.
  set (g := fun j0 : nat => Qred (A i j0)).
  rewrite (nth_indep (map g (seq 0 m)) 0 (g 0%nat)) by (rewrite map_length, seq_length; exact Hj).
  rewrite (map_nth g (seq 0 m) 0%nat j). rewrite seq_nth by exact Hj. cbn [plus]. unfold g. apply Qred_correct.
Qed.
Definition dqf_du_fast (n : nat) (Mi dM v : mat) : Q :=
  let u := freeze n 1 (mmul n Mi v) in
  let y := freeze n 1 (mmul n (freeze n n dM) u) in
  Qred (- (mmul n (mtr u) y 0%nat 0%nat)).
Lemma dqf_du_fast_correct n M Mi dM v : meq n n (mtr Mi) Mi ->
  du (dqf n {| re := M; du := dM |} Mi v) 0%nat 0%nat == dqf_du_fast n Mi dM v.
Proof.
  intros Hs. eapply Qeq_trans; [apply (dqf_du n M Mi dM v Hs 0%nat 0%nat); lia|].
  unfold dqf_du_fast. rewrite Qred_correct. unfold mscal.
  set (u := mmul n Mi v).
  assert (Eu : meq n 1 (freeze n 1 u) u) by apply freeze_meq.
  assert (Ey : meq n 1 (freeze n 1 (mmul n (freeze n n dM) (freeze n 1 u))) (mmul n dM u)).
  { rewrite (freeze_meq n 1). apply mmul_proper; [apply freeze_meq|exact Eu]. }
  assert (E : meq 1 1 (mmul n (mtr (freeze n 1 u)) (freeze n 1 (mmul n (freeze n n dM) (freeze n 1 u)))) (mmul n (mtr u) (mmul n dM u))).
  { apply mmul_proper; [|exact Ey]. intros i j Hi Hj. unfold mtr. apply Eu; assumption. }
  rewrite (E 0%nat 0%nat) by lia. lra.
Qed.

Lemma contract_ext n k G G' D : meq n k G G' -> contract n k G D == contract n k G' D.
Proof. intros H. unfold contract. apply sumn_ext; intros i Hi. apply sumn_ext; intros j Hj. rewrite (H i j Hi Hj). reflexivity. Qed.
Lemma outer_ext n k u u' w w' : meq n 1 u u' -> meq k 1 w w' -> meq n k (outer u w) (outer u' w').
Proof. intros Hu Hw i j Hi Hj. unfold outer. rewrite (Hu i 0%nat Hi ltac:(lia)), (Hw j 0%nat Hj ltac:(lia)). reflexivity. Qed.
Definition factor_contract_fast (n k : nat) (Mi F K v : mat) (c : Q) (D : mat) : Q :=
  let u := freeze n 1 (mmul n Mi v) in
  let w := freeze k 1 (mmul k K (freeze k 1 (mmul n (mtr F) u))) in
  Qred (contract n k (mscal (-2 * c) (outer u w)) D).
Lemma factor_contract_fast_correct n k Mi F K v c D :
  contract n k (factor_grad n k Mi F K v c) D == factor_contract_fast n k Mi F K v c D.
Proof.
  unfold factor_contract_fast. rewrite Qred_correct. apply contract_ext. unfold factor_grad.
  apply mscal_proper; [reflexivity|]. symmetry.
  assert (Eu : meq n 1 (freeze n 1 (mmul n Mi v)) (mmul n Mi v)) by apply freeze_meq.
  apply outer_ext; [exact Eu|].
  rewrite (freeze_meq k 1). apply mmul_proper; [reflexivity|]. rewrite (freeze_meq k 1).
  apply mmul_proper; [reflexivity|exact Eu].
Qed.
