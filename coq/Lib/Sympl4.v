(* Constrained (RATTLE / geodesic) sub-steps on tangent vectors of the cotangent bundle of { c = 0 }.
   J, J' : constraint Jacobians (c x n) at the old / new position;  GL, GM : the symmetric matrices  sum_k lam_k Hess c_k(q),
   sum_k mu_k Hess c_k(q')  that appear when  J(q)^T lam  is differentiated;  Fl : the (linear, symplectic) h2 flow block.      *)
From Coq Require Import QArith Lia Lqa List Bool Setoid Morphisms.
Require Import Mici.Lib.QMat Mici.Lib.Wood Mici.Lib.Sympl Mici.Lib.Sympl2 Mici.Lib.Sympl3.
Open Scope Q_scope.

Section C.
Variables n c : nat.
Notation vec := Sympl2.vec.
Notation veq := (Sympl2.veq n).
Notation mv := (Sympl2.mv n).
Notation dot := (Sympl2.dot n).
Notation vadd := Sympl2.vadd.
(* J^T applied to a multiplier vector (length c), and J applied to a tangent vector: only  dq . (J^T dl) = (J dq) . dl  is used *)
Definition mvT (J : mat) (l : vec) : vec := fun i => sumn c (fun k => J k i * l k).
Definition mvJ (J : mat) (x : vec) : vec := fun k => sumn n (fun i => J k i * x i).
Definition dotc (x y : vec) : Q := sumn c (fun k => x k * y k).
Definition tangent (J : mat) (x : vec) : Prop := forall k, (k < c)%nat -> mvJ J x k == 0.
Lemma dot_mvT J x l : dot x (mvT J l) == dotc (mvJ J x) l.
Proof.
  unfold Sympl2.dot, mvT, dotc, mvJ.
  rewrite (sumn_ext _ _ (fun i => sumn c (fun k => x i * J k i * l k))) by (intros; rewrite <- sumn_scal; apply sumn_ext; intros; lra).
  rewrite sumn_swap. apply sumn_ext; intros k Hk. rewrite <- sumn_scal_r. apply sumn_ext; intros; lra.
Qed.
Lemma tangent_dot J x l : tangent J x -> dot x (mvT J l) == 0.
Proof. intros H. rewrite dot_mvT. unfold dotc. apply sumn_zero. intros k Hk. rewrite (H k Hk). lra. Qed.

Section One.
Variables (J J' GL GM Sh : mat) (Fl : blk) (t : Q).
Hypothesis HGL : msym n GL.
Hypothesis HGM : msym n GM.
Hypothesis HSh : msym n Sh.
Hypothesis HFl : Sympl2.pres n Fl.

(* A: h1 kick (Hessian Sh of h1) followed by the cotangent projection at the SAME position (Jacobian J, multipliers mu):
     p' = p - t grad h1(q) - J(q)^T mu    =>   dp' = dp - t Sh dq - J^T dmu - GM dq,     dq' = dq,    J dq = 0            *)
Definition CArel : trel := fun a a' =>
  tangent J (fst a) /\ veq (fst a') (fst a)
  /\ exists dmu, veq (snd a') (vadd (vadd (snd a) (vsc (- t) (mv Sh (fst a)))) (vadd (vsc (-1) (mvT J dmu)) (vsc (-1) (mv GM (fst a))))).
(* B (one inner step): momentum shifted by J(q)^T lam so that the flow lands on the manifold, the flow, the projection at q':
     pt = p + J^T lam  => dpt = dp + J^T dlam + GL dq ;  (qf, pf) = Fl (dq, dpt) ;  J' qf = 0 ;  dp' = pf - J'^T dmu - GM qf      *)
Definition CBrel : trel := fun a a' =>
  tangent J (fst a) /\ tangent J' (fst a')
  /\ exists dlam dmu pt pf,
       veq pt (vadd (snd a) (vadd (mvT J dlam) (mv GL (fst a))))
       /\ veq (fst a') (Sympl2.actq n Fl (fst a) pt) /\ veq pf (Sympl2.actp n Fl (fst a) pt)
       /\ veq (snd a') (vadd pf (vadd (vsc (-1) (mvT J' dmu)) (vsc (-1) (mv GM (fst a'))))).

Lemma dot_sym_G G x y : msym n G -> dot x (mv G y) == dot (mv G x) y.
Proof. apply Sympl2.dot_sym_mat. Qed.

Theorem CArel_pres : rpres n CArel.
Proof.
  intros [q1 p1] [q1' p1'] [q2 p2] [q2' p2'] [T1 [A1 [m1 A2]]] [T2 [B1 [m2 B2]]]. cbn [fst snd] in *.
  unfold om, Sympl2.omega; cbn [fst snd].
  rewrite (Sympl2.dot_ext n q1' q1 p2' _ A1 B2). rewrite (Sympl2.dot_ext n p1' _ q2' q2 A2 B1).
  rewrite !dot_vadd_l, !dot_vadd_r, !dot_vsc_l, !dot_vsc_r.
  rewrite (tangent_dot J q1 m2 T1). rewrite (dot_comm n (mvT J m1) q2), (tangent_dot J q2 m1 T2).
  rewrite (dot_sym_G Sh q1 q2 HSh), (dot_sym_G GM q1 q2 HGM). ring.
Qed.

Theorem CBrel_pres : rpres n CBrel.
Proof.
  intros [q1 p1] [q1' p1'] [q2 p2] [q2' p2'] [T1 [T1' [l1 [m1 [pt1 [pf1 [A1 [A2 [A3 A4]]]]]]]]] [T2 [T2' [l2 [m2 [pt2 [pf2 [B1 [B2 [B3 B4]]]]]]]]].
  cbn [fst snd] in *. unfold om; cbn [fst snd].
  (* after the projection: omega(q', p') = omega(q', pf) *)
  assert (E1 : Sympl2.omega n q1' p1' q2' p2' == Sympl2.omega n q1' pf1 q2' pf2).
  { unfold Sympl2.omega.
    rewrite (Sympl2.dot_ext n q1' q1' p2' _ (fun i _ => Qeq_refl _) B4). rewrite (Sympl2.dot_ext n p1' _ q2' q2' A4 (fun i _ => Qeq_refl _)).
    rewrite !dot_vadd_l, !dot_vadd_r, !dot_vsc_l, !dot_vsc_r.
    rewrite (tangent_dot J' q1' m2 T1'). rewrite (dot_comm n (mvT J' m1) q2'), (tangent_dot J' q2' m1 T2').
    rewrite (dot_sym_G GM q1' q2' HGM). ring. }
  rewrite E1.
  (* the flow is symplectic *)
  rewrite (Sympl2.omega_ext n _ _ _ _ _ _ _ _ A2 A3 B2 B3). rewrite (HFl q1 pt1 q2 pt2).
  (* before the flow: omega(q, pt) = omega(q, p) *)
  unfold Sympl2.omega.
  rewrite (Sympl2.dot_ext n q1 q1 pt2 _ (fun i _ => Qeq_refl _) B1). rewrite (Sympl2.dot_ext n pt1 _ q2 q2 A1 (fun i _ => Qeq_refl _)).
  rewrite !dot_vadd_l, !dot_vadd_r.
  rewrite (tangent_dot J q1 l2 T1). rewrite (dot_comm n (mvT J l1) q2), (tangent_dot J q2 l1 T2).
  rewrite (dot_sym_G GL q1 q2 HGL). ring.
Qed.
End One.
End C.
Print Assumptions CBrel_pres.
