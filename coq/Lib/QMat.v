From Coq Require Import QArith Lia Lqa List Bool.
Open Scope Q_scope.

(* ---------- finite sums ---------- *)
Fixpoint sumn (n : nat) (f : nat -> Q) : Q := match n with O => 0 | S m => sumn m f + f m end.
Lemma sumn_ext n f g : (forall k, (k < n)%nat -> f k == g k) -> sumn n f == sumn n g.
Proof. induction n; simpl; intros H; [lra|]. rewrite IHn, (H n) by (intros; try apply H; lia). lra. Qed.
Lemma sumn_plus n f g : sumn n (fun k => f k + g k) == sumn n f + sumn n g.
Proof. induction n; simpl; [lra| rewrite IHn; lra]. Qed.
Lemma sumn_scal n c f : sumn n (fun k => c * f k) == c * sumn n f.
Proof. induction n; simpl; [lra| rewrite IHn; lra]. Qed.
Lemma sumn_scal_r n c f : sumn n (fun k => f k * c) == sumn n f * c.
Proof. induction n; simpl; [lra| rewrite IHn; lra]. Qed.
Lemma sumn_zero n f : (forall k, (k < n)%nat -> f k == 0) -> sumn n f == 0.
Proof. induction n; simpl; intros H; [lra|]. rewrite IHn, (H n) by (intros; try apply H; lia). lra. Qed.
Lemma sumn_swap n m (f : nat -> nat -> Q) : sumn n (fun i => sumn m (fun j => f i j)) == sumn m (fun j => sumn n (fun i => f i j)).
Proof. induction n; simpl. - induction m; simpl; [lra| rewrite <- IHm; lra]. - rewrite IHn, <- sumn_plus. apply sumn_ext; intros; lra. Qed.
Lemma sumn_delta n f k : (k < n)%nat -> sumn n (fun l => (if Nat.eqb k l then 1 else 0) * f l) == f k.
Proof.
  induction n; intros H; [lia|]. simpl. destruct (Nat.eq_dec k n) as [->|Ne].
  - rewrite Nat.eqb_refl. rewrite sumn_zero; [lra|]. intros l Hl. destruct (Nat.eqb_spec n l); [lia|lra].
  - rewrite IHn by lia. destruct (Nat.eqb_spec k n); [lia|lra].
Qed.
Lemma sumn_delta_r n f k : (k < n)%nat -> sumn n (fun l => f l * (if Nat.eqb l k then 1 else 0)) == f k.
Proof. intros H. rewrite (sumn_ext n _ (fun l => (if Nat.eqb k l then 1 else 0) * f l)). apply sumn_delta; auto. intros l _. rewrite Nat.eqb_sym. lra. Qed.

(* ---------- matrices as functions, equality on the index box ---------- *)
Definition mat := nat -> nat -> Q.
Definition meq (n m : nat) (A B : mat) := forall i j, (i < n)%nat -> (j < m)%nat -> A i j == B i j.
Definition mmul (k : nat) (A B : mat) : mat := fun i j => sumn k (fun l => A i l * B l j).
Definition madd (A B : mat) : mat := fun i j => A i j + B i j.
Definition msub (A B : mat) : mat := fun i j => A i j - B i j.
Definition mscal (c : Q) (A : mat) : mat := fun i j => c * A i j.
Definition mtr (A : mat) : mat := fun i j => A j i.
Definition mI : mat := fun i j => if Nat.eqb i j then 1 else 0.
Definition m0 : mat := fun _ _ => 0.

Lemma meq_refl n m A : meq n m A A. Proof. intros i j _ _; reflexivity. Qed.
Lemma meq_sym n m A B : meq n m A B -> meq n m B A. Proof. intros H i j Hi Hj; symmetry; auto. Qed.
Lemma meq_trans n m A B C : meq n m A B -> meq n m B C -> meq n m A C.
Proof. intros H1 H2 i j Hi Hj. transitivity (B i j); [apply H1|apply H2]; auto. Qed.
Lemma mmul_compat n k m A A' B B' : meq n k A A' -> meq k m B B' -> meq n m (mmul k A B) (mmul k A' B').
Proof. intros HA HB i j Hi Hj. unfold mmul. apply sumn_ext; intros l Hl. rewrite (HA i l), (HB l j) by auto. reflexivity. Qed.
Lemma madd_compat n m A A' B B' : meq n m A A' -> meq n m B B' -> meq n m (madd A B) (madd A' B').
Proof. intros HA HB i j Hi Hj. unfold madd. rewrite (HA i j), (HB i j) by auto. reflexivity. Qed.
Lemma msub_compat n m A A' B B' : meq n m A A' -> meq n m B B' -> meq n m (msub A B) (msub A' B').
Proof. intros HA HB i j Hi Hj. unfold msub. rewrite (HA i j), (HB i j) by auto. reflexivity. Qed.
Lemma mscal_compat n m c A A' : meq n m A A' -> meq n m (mscal c A) (mscal c A').
Proof. intros HA i j Hi Hj. unfold mscal. rewrite (HA i j) by auto. reflexivity. Qed.
Lemma mmul_assoc n m p q A B C : meq n q (mmul p (mmul m A B) C) (mmul m A (mmul p B C)).
Proof.
  intros i j _ _. unfold mmul.
  rewrite (sumn_ext _ _ (fun l => sumn m (fun l0 => A i l0 * B l0 l * C l j))) by (intros; rewrite sumn_scal_r; lra).
  rewrite sumn_swap. apply sumn_ext; intros. rewrite <- sumn_scal. apply sumn_ext; intros; lra.
Qed.
Lemma mmul_I_l n m A : meq n m (mmul n mI A) A.
Proof. intros i j Hi Hj. unfold mmul, mI. apply (sumn_delta n (fun l => A l j) i); auto. Qed.
Lemma mmul_I_r n m A : meq n m (mmul m A mI) A.
Proof. intros i j Hi Hj. unfold mmul, mI. apply (sumn_delta_r m (fun l => A i l) j); auto. Qed.
Lemma mmul_add_l n k m A B C : meq n m (mmul k (madd A B) C) (madd (mmul k A C) (mmul k B C)).
Proof. intros i j _ _. unfold mmul, madd. rewrite <- sumn_plus. apply sumn_ext; intros; lra. Qed.
Lemma mmul_add_r n k m A B C : meq n m (mmul k A (madd B C)) (madd (mmul k A B) (mmul k A C)).
Proof. intros i j _ _. unfold mmul, madd. rewrite <- sumn_plus. apply sumn_ext; intros; lra. Qed.
Lemma mmul_sub_l n k m A B C : meq n m (mmul k (msub A B) C) (msub (mmul k A C) (mmul k B C)).
Proof. intros i j _ _. unfold mmul, msub.
  transitivity (sumn k (fun l => A i l * C l j) + (-1) * sumn k (fun l => B i l * C l j)); [|lra].
  rewrite <- (sumn_scal k (-1)), <- sumn_plus. apply sumn_ext; intros; lra. Qed.
Lemma mmul_sub_r n k m A B C : meq n m (mmul k A (msub B C)) (msub (mmul k A B) (mmul k A C)).
Proof. intros i j _ _. unfold mmul, msub.
  transitivity (sumn k (fun l => A i l * B l j) + (-1) * sumn k (fun l => A i l * C l j)); [|lra].
  rewrite <- (sumn_scal k (-1)), <- sumn_plus. apply sumn_ext; intros; lra. Qed.
Lemma mmul_scal_l n k m c A B : meq n m (mmul k (mscal c A) B) (mscal c (mmul k A B)).
Proof. intros i j _ _. unfold mmul, mscal. rewrite <- sumn_scal. apply sumn_ext; intros; lra. Qed.
Lemma mmul_scal_r n k m c A B : meq n m (mmul k A (mscal c B)) (mscal c (mmul k A B)).
Proof. intros i j _ _. unfold mmul, mscal. rewrite <- sumn_scal. apply sumn_ext; intros; lra. Qed.
Lemma mtr_mul n k m A B : meq m n (mtr (mmul k A B)) (mmul k (mtr B) (mtr A)).
Proof. intros i j _ _. unfold mtr, mmul. apply sumn_ext; intros; lra. Qed.
Lemma mtr_mtr n m A : meq n m (mtr (mtr A)) A. Proof. intros i j _ _; reflexivity. Qed.
Definition is_inv (n : nat) (A Ai : mat) := meq n n (mmul n A Ai) mI /\ meq n n (mmul n Ai A) mI.
