From Coq Require Import QArith Lia Lqa List Bool Setoid Morphisms.
Require Import Mici.Lib.QMat.
Open Scope Q_scope.

Global Instance meq_equiv n m : Equivalence (meq n m).
Proof. split; [intro; apply meq_refl | intros ? ?; apply meq_sym | intros ? ? ?; apply meq_trans]. Qed.
Global Instance mmul_proper n k m : Proper (meq n k ==> meq k m ==> meq n m) (mmul k).
Proof. intros A A' HA B B' HB. apply mmul_compat; auto. Qed.
Global Instance madd_proper n m : Proper (meq n m ==> meq n m ==> meq n m) madd.
Proof. intros A A' HA B B' HB. apply madd_compat; auto. Qed.
Global Instance msub_proper n m : Proper (meq n m ==> meq n m ==> meq n m) msub.
Proof. intros A A' HA B B' HB. apply msub_compat; auto. Qed.
Global Instance mscal_proper n m : Proper (Qeq ==> meq n m ==> meq n m) mscal.
Proof. intros c c' Hc A A' HA i j Hi Hj. unfold mscal. rewrite Hc, (HA i j) by auto. reflexivity. Qed.

Section W.
Variables n k : nat.
Variables (A X : mat) (U : mat) (C Ci : mat) (V : mat) (s : Q).
Hypothesis s2 : s * s == 1.
Hypothesis HA : is_inv n A X.
Hypothesis HC : is_inv k C Ci.
Let cap := madd Ci (mscal s (mmul n V (mmul n X U))).
Variable K : mat.
Hypothesis HK : is_inv k cap K.

(* M = A + s U C V ;  Minv = X - s X U K V X *)
Let M := madd A (mscal s (mmul k U (mmul k C V))).
Let Mi := msub X (mscal s (mmul n X (mmul k U (mmul k K (mmul n V X))))).

Lemma VXU_eq : meq k k (mmul n V (mmul n X U)) (mscal s (msub cap Ci)).
Proof.
  intros i j Hi Hj. unfold cap, mscal, msub, madd.
  transitivity ((s * s) * mmul n V (mmul n X U) i j); [rewrite s2; lra| lra].
Qed.

Theorem woodbury_signed : meq n n (mmul n M Mi) mI.
Proof.
  unfold M, Mi.
  rewrite mmul_add_l.
  rewrite (mmul_sub_r n n n A).
  rewrite (mmul_sub_r n n n (mscal s _)).
  destruct HA as [HA1 HA2]. destruct HC as [HC1 HC2]. destruct HK as [HK1 HK2].
  rewrite HA1.
  (* A (s X U K V X) = s U K V X *)
  assert (E1 : meq n n (mmul n A (mscal s (mmul n X (mmul k U (mmul k K (mmul n V X)))))) (mscal s (mmul k U (mmul k K (mmul n V X))))).
  { rewrite mmul_scal_r. apply mscal_proper; [reflexivity|]. rewrite <- (mmul_assoc n n n n A X). rewrite HA1. apply mmul_I_l. }
  rewrite E1.
  (* s U C V X *)
  assert (E2 : meq n n (mmul n (mscal s (mmul k U (mmul k C V))) X) (mscal s (mmul k U (mmul k C (mmul n V X))))).
  { rewrite mmul_scal_l. apply mscal_proper; [reflexivity|]. rewrite (mmul_assoc n k n n U). rewrite (mmul_assoc k k n n C). reflexivity. }
  rewrite E2.
  (* (s U C V)(s X U K V X) = U C (V X U) K V X = U C (s (cap - Ci)) K V X = s U C V X - s U K V X *)
  assert (E3 : meq n n (mmul n (mscal s (mmul k U (mmul k C V))) (mscal s (mmul n X (mmul k U (mmul k K (mmul n V X))))))
                      (msub (mscal s (mmul k U (mmul k C (mmul n V X)))) (mscal s (mmul k U (mmul k K (mmul n V X)))))).
  { rewrite mmul_scal_l, mmul_scal_r.
    (* U C V X U K V X : reassociate to U C (V X U) K (V X) *)
    assert (R : meq n n (mmul n (mmul k U (mmul k C V)) (mmul n X (mmul k U (mmul k K (mmul n V X)))))
                        (mmul k U (mmul k C (mmul k (mmul n V (mmul n X U)) (mmul k K (mmul n V X)))))).
    { rewrite (mmul_assoc n k n n U). apply mmul_proper; [reflexivity|].
      rewrite (mmul_assoc k k n n C). apply mmul_proper; [reflexivity|].
      rewrite (mmul_assoc k n k n V). apply mmul_proper; [reflexivity|].
      rewrite (mmul_assoc n n k n X). reflexivity. }
    rewrite R. rewrite VXU_eq.
    rewrite (mmul_scal_l k k n s). rewrite (mmul_scal_r k k n s C). rewrite (mmul_scal_r n k n s U).
    intros i j Hi Hj. unfold mscal.
    transitivity ((s * s) * (s * mmul k U (mmul k C (mmul k (msub cap Ci) (mmul k K (mmul n V X)))) i j)); [lra|].
    rewrite s2.
    assert (R2 : meq n n (mmul k U (mmul k C (mmul k (msub cap Ci) (mmul k K (mmul n V X)))))
                         (msub (mmul k U (mmul k C (mmul n V X))) (mmul k U (mmul k K (mmul n V X))))).
    { rewrite (mmul_sub_l k k n cap Ci).
      rewrite <- (mmul_assoc k k k n cap K). rewrite HK1. rewrite (mmul_I_l k n).
      rewrite (mmul_sub_r k k n C). rewrite <- (mmul_assoc k k k n C Ci). rewrite HC1. rewrite (mmul_I_l k n).
      rewrite (mmul_sub_r n k n U). reflexivity. }
    rewrite (R2 i j Hi Hj). unfold msub. lra. }
  rewrite E3.
  intros i j Hi Hj. unfold madd, msub, mscal. lra.
Qed.
End W.
Print Assumptions woodbury_signed.
