(* Symplecticity of IMPLICIT sub-steps, stated on tangent vectors: a sub-step defined by an implicit equation F(z, z') = 0 maps a
   tangent vector dz to a dz' related to it by the linearised equation dF = 0 (implicit differentiation).  For every pair of
   related tangent-vector pairs the canonical two-form is unchanged -- no invertibility assumption, any dimension, any
   symmetric second-derivative blocks S = H_qq, W = H_pp and any mixed block K = H_qp.                                        *)
From Coq Require Import QArith Lia Lqa List Bool Setoid Morphisms.
Require Import Mici.Lib.QMat Mici.Lib.Wood Mici.Lib.Sympl Mici.Lib.Sympl2.
Open Scope Q_scope.

Section R.
Variable n : nat.
Notation vec := Sympl2.vec.
Notation veq := (Sympl2.veq n).
Notation mv := (Sympl2.mv n).
Notation dot := (Sympl2.dot n).
Notation omega := (Sympl2.omega n).
Definition tang := (vec * vec)%type.                      (* (dq, dp) *)
Definition trel := tang -> tang -> Prop.
Definition om (a b : tang) : Q := omega (fst a) (snd a) (fst b) (snd b).
Definition rpres (R : trel) : Prop := forall a a' b b', R a a' -> R b b' -> om a' b' == om a b.
Definition rcomp (R1 R2 : trel) : trel := fun a c => exists b, R1 a b /\ R2 b c.
Definition rid : trel := fun a b => veq (fst b) (fst a) /\ veq (snd b) (snd a).

Lemma rpres_comp R1 R2 : rpres R1 -> rpres R2 -> rpres (rcomp R1 R2).
Proof.
  intros H1 H2 a a' b b' [ma [A1 A2]] [mb [B1 B2]].
  rewrite (H2 ma a' mb b' A2 B2). apply (H1 a ma b mb A1 B1).
Qed.
Lemma rpres_id : rpres rid.
Proof. intros a a' b b' [A1 A2] [B1 B2]. unfold om. apply (Sympl2.omega_ext n); assumption. Qed.

(* an explicit block Jacobian as a relation *)
Definition of_blk (J : blk) : trel := fun a a' => veq (fst a') (Sympl2.actq n J (fst a) (snd a)) /\ veq (snd a') (Sympl2.actp n J (fst a) (snd a)).
Lemma of_blk_pres J : Sympl2.pres n J -> rpres (of_blk J).
Proof.
  intros H a a' b b' [A1 A2] [B1 B2]. unfold om.
  rewrite (Sympl2.omega_ext n _ _ _ _ _ _ _ _ A1 A2 B1 B2). apply H.
Qed.

(* transpose moves across the dot product *)
Lemma dot_tr K x y : dot x (mv K y) == dot (mv (mtr K) x) y.
Proof.
  unfold Sympl2.dot, Sympl2.mv, mtr.
  rewrite (sumn_ext _ _ (fun k => sumn n (fun l => x k * K k l * y l))) by (intros; rewrite <- sumn_scal; apply sumn_ext; intros; lra).
  rewrite sumn_swap. apply sumn_ext; intros l Hl. rewrite <- sumn_scal_r. apply sumn_ext; intros; lra.
Qed.
Lemma dot_comm x y : dot x y == dot y x.
Proof. unfold Sympl2.dot. apply sumn_ext; intros; lra. Qed.

Definition vsc (c : Q) (x : vec) : vec := fun i => c * x i.
Notation vadd := Sympl2.vadd.

Section H.
Variables (S W K : mat) (t : Q).
Hypothesis HS : msym n S.
Hypothesis HW : msym n W.

(* symplectic Euler, momentum first (mici: _step_b_fwd then _step_c_fwd of the generalised leapfrog), Hessian blocks at (q, p'):
     p' = p - t dH/dq(q, p')      =>   dp  = dp' + t (S dq + K dp')
     q' = q + t dH/dp(q, p')      =>   dq' = dq  + t (K^T dq + W dp')                                                    *)
Definition SE : trel := fun a a' =>
  veq (snd a) (vadd (snd a') (vsc t (vadd (mv S (fst a)) (mv K (snd a')))))
  /\ veq (fst a') (vadd (fst a) (vsc t (vadd (mv (mtr K) (fst a)) (mv W (snd a'))))).
(* its adjoint, position first (mici: _step_c_adj then _step_b_adj), Hessian blocks at (q', p):
     q' = q + t dH/dp(q', p)      =>   dq  = dq' - t (K^T dq' + W dp)
     p' = p - t dH/dq(q', p)      =>   dp' = dp  - t (S dq' + K dp)                                                      *)
Definition SEadj : trel := fun a a' =>
  veq (fst a) (vadd (fst a') (vsc (- t) (vadd (mv (mtr K) (fst a')) (mv W (snd a)))))
  /\ veq (snd a') (vadd (snd a) (vsc (- t) (vadd (mv S (fst a')) (mv K (snd a))))).
(* implicit midpoint as mici writes it: implicit Euler half step to the midpoint m, then the explicit Euler half step from m,
   the Hessian of the FULL Hamiltonian at m in both:   dz = dm - t X dm,  dz' = dm + t X dm,  X = [[K^T, W], [-S, -K]]     *)
Definition Xq (m : tang) : vec := vadd (mv (mtr K) (fst m)) (mv W (snd m)).
Definition Xp (m : tang) : vec := vsc (-1) (vadd (mv S (fst m)) (mv K (snd m))).
Definition MID : trel := fun a a' => exists m : tang,
  veq (fst a) (vadd (fst m) (vsc (- t) (Xq m))) /\ veq (snd a) (vadd (snd m) (vsc (- t) (Xp m)))
  /\ veq (fst a') (vadd (fst m) (vsc t (Xq m))) /\ veq (snd a') (vadd (snd m) (vsc t (Xp m))).

(* bilinear expansion helpers *)
Lemma dot_vadd_l x y z : dot (vadd x y) z == dot x z + dot y z. Proof. apply Sympl2.dot_plus_l. Qed.
Lemma dot_vadd_r x y z : dot x (vadd y z) == dot x y + dot x z. Proof. apply Sympl2.dot_plus_r. Qed.
Lemma dot_vsc_l c x y : dot (vsc c x) y == c * dot x y. Proof. apply Sympl2.dot_scal_l. Qed.
Lemma dot_vsc_r c x y : dot x (vsc c y) == c * dot x y. Proof. apply Sympl2.dot_scal_r. Qed.
Lemma dotS x y : dot x (mv S y) == dot (mv S x) y. Proof. apply Sympl2.dot_sym_mat. exact HS. Qed.
Lemma dotW x y : dot x (mv W y) == dot (mv W x) y. Proof. apply Sympl2.dot_sym_mat. exact HW. Qed.

Theorem SE_pres : rpres SE.
Proof.
  intros [q1 p1] [q1' p1'] [q2 p2] [q2' p2'] [A1 A2] [B1 B2]. cbn [fst snd] in *. unfold om, Sympl2.omega; cbn [fst snd].
  rewrite (Sympl2.dot_ext n q1' _ p2' p2' A2 (fun i _ => Qeq_refl _)).
  rewrite (Sympl2.dot_ext n p1' p1' q2' _ (fun i _ => Qeq_refl _) B2).
  rewrite (Sympl2.dot_ext n q1 q1 p2 _ (fun i _ => Qeq_refl _) B1).
  rewrite (Sympl2.dot_ext n p1 _ q2 q2 A1 (fun i _ => Qeq_refl _)).
  rewrite !dot_vadd_l, !dot_vadd_r, !dot_vsc_l, !dot_vsc_r, !dot_vadd_l, !dot_vadd_r.
  assert (F : forall x y, dot x (mv (mtr K) y) == dot (mv K x) y).
  { intros x y. rewrite (dot_comm x), <- (dot_tr K y x). apply dot_comm. }
  rewrite <- (dot_tr K q1 p2'), <- (dotW p1' p2'), (F p1' q2), (dotS q1 q2). ring.
Qed.

Theorem SEadj_pres : rpres SEadj.
Proof.
  intros [q1 p1] [q1' p1'] [q2 p2] [q2' p2'] [A1 A2] [B1 B2]. cbn [fst snd] in *. unfold om, Sympl2.omega; cbn [fst snd].
  rewrite (Sympl2.dot_ext n q1' q1' p2' _ (fun i _ => Qeq_refl _) B2).
  rewrite (Sympl2.dot_ext n p1' _ q2' q2' A2 (fun i _ => Qeq_refl _)).
  rewrite (Sympl2.dot_ext n q1 _ p2 p2 A1 (fun i _ => Qeq_refl _)).
  rewrite (Sympl2.dot_ext n p1 p1 q2 _ (fun i _ => Qeq_refl _) B1).
  rewrite !dot_vadd_l, !dot_vadd_r, !dot_vsc_l, !dot_vsc_r, !dot_vadd_l, !dot_vadd_r.
  assert (F : forall x y, dot x (mv (mtr K) y) == dot (mv K x) y).
  { intros x y. rewrite (dot_comm x), <- (dot_tr K y x). apply dot_comm. }
  rewrite <- (dot_tr K q1' p2), <- (dotW p1 p2), (F p1 q2'), (dotS q1' q2'). ring.
Qed.

(* X is a Hamiltonian matrix: omega(X a, b) + omega(a, X b) = 0 *)
Lemma X_hamiltonian a b : omega (Xq a) (Xp a) (fst b) (snd b) + omega (fst a) (snd a) (Xq b) (Xp b) == 0.
Proof.
  destruct a as [aq ap], b as [bq bp]. unfold Sympl2.omega, Xq, Xp; cbn [fst snd].
  rewrite !dot_vadd_l, !dot_vadd_r, !dot_vsc_l, !dot_vsc_r, !dot_vadd_l, !dot_vadd_r.
  assert (F : forall x y, dot x (mv (mtr K) y) == dot (mv K x) y).
  { intros x y. rewrite (dot_comm x), <- (dot_tr K y x). apply dot_comm. }
  rewrite <- (dot_tr K aq bp), <- (dotW ap bp), (F ap bq), (dotS aq bq). ring.
Qed.

Theorem MID_pres : rpres MID.
Proof.
  intros [q1 p1] [q1' p1'] [q2 p2] [q2' p2'] [ma [A1 [A2 [A3 A4]]]] [mb [B1 [B2 [B3 B4]]]]. cbn [fst snd] in *.
  unfold om; cbn [fst snd].
  rewrite (Sympl2.omega_ext n _ _ _ _ _ _ _ _ A3 A4 B3 B4). rewrite (Sympl2.omega_ext n _ _ _ _ _ _ _ _ A1 A2 B1 B2).
  pose proof (X_hamiltonian ma mb) as XH. unfold Sympl2.omega in *.
  rewrite !dot_vadd_l, !dot_vadd_r, !dot_vsc_l, !dot_vsc_r.
  set (u1 := dot (Xq ma) (snd mb)) in *. set (u2 := dot (Xp ma) (fst mb)) in *. set (u3 := dot (fst ma) (Xp mb)) in *. set (u4 := dot (snd ma) (Xq mb)) in *.
  assert (XH' : u1 - u2 + (u3 - u4) == 0) by exact XH.
  assert (E : u1 == u2 - u3 + u4) by lra. rewrite E. ring.
Qed.
End H.
End R.
