(* Further matrix identities behind the structured classes of src/mici/matrices.py (all sizes). *)
From Coq Require Import QArith Lia Lqa List Bool Setoid Morphisms.
Require Import Mici.Lib.QMat Mici.Lib.Wood.
Open Scope Q_scope.

Section Id.
Variable n : nat.
(* inverse of a product: (A B)^-1 = B^-1 A^-1 *)
Theorem inv_product A Ai B Bi : is_inv n A Ai -> is_inv n B Bi -> is_inv n (mmul n A B) (mmul n Bi Ai).
Proof.
  intros [A1 A2] [B1 B2]. split.
  - rewrite (mmul_assoc n n n n A B). rewrite <- (mmul_assoc n n n n B Bi Ai). rewrite B1. rewrite (mmul_I_l n n). exact A1.
  - rewrite (mmul_assoc n n n n Bi Ai). rewrite <- (mmul_assoc n n n n Ai A B). rewrite A2. rewrite (mmul_I_l n n). exact B2.
Qed.
(* non-zero scalar multiples: (c A)^-1 = (1/c) A^-1 *)
Theorem inv_scalar c A Ai : ~ c == 0 -> is_inv n A Ai -> is_inv n (mscal c A) (mscal (/ c) Ai).
Proof.
  intros Hc [A1 A2]. split.
  - rewrite (mmul_scal_l n n n c), (mmul_scal_r n n n (/ c)). rewrite A1. intros i j _ _. unfold mscal. field. exact Hc.
  - rewrite (mmul_scal_l n n n (/ c)), (mmul_scal_r n n n c). rewrite A2. intros i j _ _. unfold mscal. field. exact Hc.
Qed.
(* transpose of an inverse *)
Theorem inv_transpose A Ai : is_inv n A Ai -> is_inv n (mtr A) (mtr Ai).
Proof.
  intros [A1 A2]. split.
  - rewrite <- (mtr_mul n n n Ai A). intros i j Hi Hj. unfold mtr. rewrite (A2 j i Hj Hi). unfold mI. rewrite Nat.eqb_sym. reflexivity.
  - rewrite <- (mtr_mul n n n A Ai). intros i j Hi Hj. unfold mtr. rewrite (A1 j i Hj Hi). unfold mI. rewrite Nat.eqb_sym. reflexivity.
Qed.

(* diagonal matrices *)
Definition mdiag (d : nat -> Q) : mat := fun i j => if Nat.eqb i j then d i else 0.
Lemma mdiag_mul d e : meq n n (mmul n (mdiag d) (mdiag e)) (mdiag (fun i => d i * e i)).
Proof.
  intros i j Hi Hj. unfold mmul, mdiag.
  rewrite (sumn_ext n _ (fun l => (if Nat.eqb i l then 1 else 0) * ((if Nat.eqb l j then d i * e l else 0)))).
  - rewrite (sumn_delta n (fun l => if Nat.eqb l j then d i * e l else 0) i Hi). destruct (Nat.eqb i j); reflexivity.
  - intros l _. destruct (Nat.eqb_spec i l); [subst; destruct (Nat.eqb l j); lra | lra].
Qed.
Theorem inv_diagonal d : (forall i, (i < n)%nat -> ~ d i == 0) -> is_inv n (mdiag d) (mdiag (fun i => / d i)).
Proof.
  intros Hd. split; rewrite mdiag_mul; intros i j Hi Hj; unfold mdiag, mI; destruct (Nat.eqb i j); try reflexivity; field; auto.
Qed.

(* eigendecomposed matrices M = V diag(l) V^T with V orthogonal: inverse and square-root factor *)
Variables (V : mat) (l : nat -> Q).
Hypothesis VtV : meq n n (mmul n (mtr V) V) mI.
Hypothesis VVt : meq n n (mmul n V (mtr V)) mI.
Definition eig (e : nat -> Q) : mat := mmul n V (mmul n (mdiag e) (mtr V)).
Theorem eig_inverse : (forall i, (i < n)%nat -> ~ l i == 0) -> is_inv n (eig l) (eig (fun i => / l i)).
Proof.
  intros Hl. destruct (inv_diagonal l Hl) as [D1 D2]. unfold eig. split.
  - rewrite (mmul_assoc n n n n V). rewrite (mmul_assoc n n n n (mdiag l) (mtr V)).
    rewrite <- (mmul_assoc n n n n (mtr V) V). rewrite VtV. rewrite (mmul_I_l n n).
    rewrite <- (mmul_assoc n n n n (mdiag l)). rewrite D1. rewrite (mmul_I_l n n). exact VVt.
  - rewrite (mmul_assoc n n n n V). rewrite (mmul_assoc n n n n (mdiag (fun i => / l i)) (mtr V)).
    rewrite <- (mmul_assoc n n n n (mtr V) V). rewrite VtV. rewrite (mmul_I_l n n).
    rewrite <- (mmul_assoc n n n n (mdiag (fun i => / l i))). rewrite D2. rewrite (mmul_I_l n n). exact VVt.
Qed.
Lemma mdiag_tr d : meq n n (mtr (mdiag d)) (mdiag d).
Proof. intros i j _ _. unfold mtr, mdiag. destruct (Nat.eqb_spec j i); subst; [rewrite Nat.eqb_refl; reflexivity|]. destruct (Nat.eqb_spec i j); [congruence|reflexivity]. Qed.
(* S = V diag(m) with m_i^2 = l_i is a square-root factor: S S^T = M *)
Theorem eig_sqrt (m : nat -> Q) : (forall i, (i < n)%nat -> m i * m i == l i) ->
  meq n n (mmul n (mmul n V (mdiag m)) (mtr (mmul n V (mdiag m)))) (eig l).
Proof.
  intros Hm. rewrite (mtr_mul n n n V (mdiag m)). rewrite mdiag_tr. unfold eig.
  rewrite (mmul_assoc n n n n V (mdiag m)). rewrite <- (mmul_assoc n n n n (mdiag m) (mdiag m)). rewrite mdiag_mul.
  apply mmul_proper; [reflexivity|]. apply mmul_proper; [|reflexivity].
  intros i j Hi Hj. unfold mdiag. destruct (Nat.eqb i j); [apply Hm; auto|reflexivity].
Qed.
End Id.

(* triangular-factored definite matrices M = s L L^T (s = +-1): M^-1 = s L^-T L^-1 *)
Theorem trifactor_inverse n L Li s : s * s == 1 -> is_inv n L Li ->
  is_inv n (mscal s (mmul n L (mtr L))) (mscal s (mmul n (mtr Li) Li)).
Proof.
  intros s2 HL. destruct (inv_transpose n L Li HL) as [T1 T2]. destruct HL as [L1 L2]. split.
  - rewrite (mmul_scal_l n n n s), (mmul_scal_r n n n s).
    rewrite (mmul_assoc n n n n L (mtr L)). rewrite <- (mmul_assoc n n n n (mtr L) (mtr Li) Li). rewrite T1. rewrite (mmul_I_l n n). rewrite L1.
    intros i j _ _. unfold mscal. transitivity ((s * s) * mI i j); [ring | rewrite s2; ring].
  - rewrite (mmul_scal_l n n n s), (mmul_scal_r n n n s).
    rewrite (mmul_assoc n n n n (mtr Li) Li). rewrite <- (mmul_assoc n n n n Li L (mtr L)). rewrite L2. rewrite (mmul_I_l n n). rewrite T2.
    intros i j _ _. unfold mscal. transitivity ((s * s) * mI i j); [ring | rewrite s2; ring].
Qed.
